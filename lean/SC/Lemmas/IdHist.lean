/-
The identity invariant of HISTORIES: in every state reachable by public calls through any handle,
constructor calls and outside writers, the identities in the objects' trees are pairwise distinct —
within a tree and across objects — and below the counter.  This discharges the identity hypotheses
of the child-handle refinement step (`call_child_refines`) for every reachable state.
-/
import SC.Lemmas.IdBody
import SC.Lemmas.Refine
namespace SC
variable {ι : Type}

/-! ### the counter never goes back (no precondition) -/

theorem elemStep_next_le {existing : T} {new : Tr ι} {nested : UpdRes T} {verr : Option Err} {n : Nat}
    (hn : n ≤ nested.next) : n ≤ (elemStep existing new nested verr n).next := by
  have hrep : ∀ (cur : T) (m : Nat) (det : List T), n ≤ m →
      n ≤ (match verr with
         | some e => (⟨cur, m, det, some e⟩ : UpdRes T)
         | none => ⟨(fromBase new m).1, (fromBase new m).2, det ++ containers [cur], none⟩).next := by
    intro cur m det hm
    cases verr with
    | some e => exact hm
    | none => have := (fromBase_fresh new m).1; dsimp only; omega
  unfold elemStep
  cases existing with
  | leaf s =>
    cases new with
    | leaf s' =>
      simp only
      split
      · exact Nat.le_refl _
      · exact hrep _ _ _ (Nat.le_refl _)
    | list i xs => exact hrep _ _ _ (Nat.le_refl _)
    | dict i kvs => exact hrep _ _ _ (Nat.le_refl _)
  | list i xs =>
    simp only
    split
    · exact hrep _ _ _ (Nat.le_refl _)
    · split
      · exact hn
      · split
        · exact hrep _ _ _ hn
        · exact hn
  | dict i kvs =>
    simp only
    split
    · exact hrep _ _ _ (Nat.le_refl _)
    · split
      · exact hn
      · split
        · exact hrep _ _ _ hn
        · exact hn

mutual
theorem updNode_next_le (fam : Fam) : ∀ (d : Tr ι) (t : T) (n : Nat), n ≤ (updNode fam t d n).next
  | .leaf s, t, n => by cases s <;> cases t <;> simp [updNode]
  | .list j dxs, t, n => by
    cases t with
    | leaf s => simp [updNode]
    | dict i kvs => simp [updNode]
    | list i xs => simp only [updNode]; exact updListLoop_next_le fam dxs xs n
  | .dict j dkvs, t, n => by
    cases t with
    | leaf s => simp [updNode]
    | list i xs => simp [updNode]
    | dict i kvs =>
      simp only [updNode]
      have := updDictLoop_next_le fam dkvs kvs n
      split <;> exact this
theorem updDictLoop_next_le (fam : Fam) : ∀ (data : List (Key × Tr ι)) (cur : List (Key × T)) (n : Nat),
    n ≤ (updDictLoop fam cur data n).next
  | [], cur, n => by simp [updDictLoop]
  | (k, v) :: rest, cur, n => by
    simp only [updDictLoop]
    split
    · split
      · exact Nat.le_refl _
      · have h1 := (fromBase_fresh v n).1
        have h2 := updDictLoop_next_le fam rest (cur ++ [(k, (fromBase v n).1)]) (fromBase v n).2
        dsimp only; omega
    · next existing _ =>
      have hs := elemStep_next_le (existing := existing) (new := v) (verr := validateKV fam.dictV [(k, v)])
        (updNode_next_le fam v existing n)
      split
      · exact hs
      · have h2 := updDictLoop_next_le fam rest
          (Tr.setKey k (elemStep existing v (updNode fam existing v n) (validateKV fam.dictV [(k, v)]) n).val cur)
          (elemStep existing v (updNode fam existing v n) (validateKV fam.dictV [(k, v)]) n).next
        dsimp only; omega
theorem updListLoop_next_le (fam : Fam) : ∀ (data : List (Tr ι)) (cur : List T) (n : Nat),
    n ≤ (updListLoop fam cur data n).next
  | [], [], n => by simp [updListLoop]
  | [], c :: cs, n => by simp [updListLoop]
  | d :: ds, [], n => by
    simp only [updListLoop]
    split
    · exact Nat.le_refl _
    · exact (fromBaseL_fresh (d :: ds) n).1
  | d :: ds, c :: cs, n => by
    have hs := elemStep_next_le (existing := c) (new := d) (verr := validate fam.listV d)
      (updNode_next_le fam d c n)
    simp only [updListLoop]
    split
    · exact hs
    · have h2 := updListLoop_next_le fam ds cs (elemStep c d (updNode fam c d n) (validate fam.listV d) n).next
      dsimp only; omega
end

theorem dmutRes_next (t : T) (i : Nat) (kvs : List (Key × T)) (m : DictMut T) (n : Nat) :
    (dmutRes t i kvs m n).next = n := by
  unfold dmutRes; cases dictMut kvs m <;> rfl
theorem lmutRes_next (t : T) (i : Nat) (xs : List T) (m : ListMut T) (n : Nat) :
    (lmutRes t i xs m n).next = n := by
  unfold lmutRes; cases listMut xs m <;> rfl

theorem runBody_next_le (fam : Fam) (t : T) (op : Op) (n : Nat) : n ≤ (runBody fam t op n).next := by
  have hfb : ∀ v : J, n ≤ (fromBase v n).2 := fun v => (fromBase_fresh v n).1
  cases t with
  | leaf s => cases op <;> simp [runBody]
  | dict i kvs =>
    cases op with
    | dSetitem k v => simp only [runBody, dmutRes_next]; exact hfb v
    | dSetdefault k d =>
      simp only [runBody]
      split
      · exact Nat.le_refl _
      · split
        · exact Nat.le_refl _
        · exact hfb d
    | dUpdate other kw => simp only [runBody]; exact updDictLoop_next_le fam _ kvs n
    | dReset v => simp only [runBody]; exact updNode_next_le fam v _ n
    | dRead rd => simp only [runBody]; split <;> exact Nat.le_refl _
    | _ => simp [runBody, dmutRes_next]
  | list i xs =>
    cases op with
    | lSetitem ix v =>
      cases ix with
      | i j => simp only [runBody, lmutRes_next]; exact hfb v
      | sl sl =>
        simp only [runBody]
        split
        · exact hfb v
        · simp only [lmutRes_next]; exact hfb v
    | lInsert j v => simp only [runBody, lmutRes_next]; exact hfb v
    | lAppend v => simp only [runBody, lmutRes_next]; exact hfb v
    | lExtend v =>
      simp only [runBody]
      split
      · exact Nat.le_refl _
      · simp only [lmutRes_next]; exact (fromBaseL_fresh _ n).1
    | lIadd v =>
      simp only [runBody]
      split
      · exact Nat.le_refl _
      · simp only [lmutRes_next]; exact (fromBaseL_fresh _ n).1
    | lReset v => simp only [runBody]; exact updNode_next_le fam v _ n
    | lRead rd => simp only [runBody]; split <;> exact Nat.le_refl _
    | _ => simp [runBody, lmutRes_next]

/-! ### replacing one segment of a list of identities -/

/-- a step on one segment of a longer list of pairwise distinct identities below the counter -/
theorem IdStep.frame {n m : Nat} {old new : List Nat} (A B : List Nat) (h : IdStep n old m new)
    (hn : (A ++ old ++ B).Nodup) (hb : ∀ a ∈ A ++ old ++ B, a < n) :
    IdStep n (A ++ old ++ B) m (A ++ new ++ B) := by
  have h1 := List.nodup_append.mp hn
  have h2 := List.nodup_append.mp h1.1
  refine ⟨h.1, ?_, ?_⟩
  · refine List.nodup_append.mpr ⟨List.nodup_append.mpr ⟨h2.1, h.2.1, ?_⟩, h1.2.1, ?_⟩
    · intro a ha b hb2 hab
      subst hab
      rcases h.2.2 a hb2 with ho | hf
      · exact h2.2.2 a ha a ho rfl
      · have := hb a (by simp [ha]); omega
    · intro a ha b hb2 hab
      subst hab
      rcases List.mem_append.mp ha with ha | ha
      · exact h1.2.2 a (by simp [ha]) a hb2 rfl
      · rcases h.2.2 a ha with ho | hf
        · exact h1.2.2 a (by simp [ho]) a hb2 rfl
        · have := hb a (by simp [hb2]); omega
  · intro a ha
    simp only [List.mem_append] at ha ⊢
    rcases ha with (ha | ha) | ha
    · exact Or.inl (Or.inl (Or.inl ha))
    · rcases h.2.2 a ha with ho | hf
      · exact Or.inl (Or.inl (Or.inr ho))
      · exact Or.inr hf
    · exact Or.inl (Or.inr ha)

/-! ### find / replace, once more -/

mutual
theorem mem_ids_of_find (h : Nat) : ∀ (t c : T), Tr.find h t = some c → h ∈ Tr.ids t
  | .leaf _, _, hf => by simp [Tr.find] at hf
  | .list i xs, c, hf => by
    simp only [Tr.find] at hf
    simp only [Tr.ids, List.mem_cons]
    split at hf
    · rename_i e; exact Or.inl e.symm
    · exact Or.inr (mem_idsL_of_findL h xs c hf)
  | .dict i kvs, c, hf => by
    simp only [Tr.find] at hf
    simp only [Tr.ids, List.mem_cons]
    split at hf
    · rename_i e; exact Or.inl e.symm
    · exact Or.inr (mem_idsKV_of_findKV h kvs c hf)
theorem mem_idsL_of_findL (h : Nat) : ∀ (xs : List T) (c : T), Tr.findL h xs = some c → h ∈ Tr.idsL xs
  | [], _, hf => by simp [Tr.findL] at hf
  | x :: xs, c, hf => by
    simp only [Tr.findL] at hf
    simp only [Tr.idsL, List.mem_append]
    cases hx : Tr.find h x with
    | some t => exact Or.inl (mem_ids_of_find h x t hx)
    | none => rw [hx] at hf; exact Or.inr (mem_idsL_of_findL h xs c hf)
theorem mem_idsKV_of_findKV (h : Nat) : ∀ (kvs : List (Key × T)) (c : T), Tr.findKV h kvs = some c →
    h ∈ Tr.idsKV kvs
  | [], _, hf => by simp [Tr.findKV] at hf
  | (k, v) :: kvs, c, hf => by
    simp only [Tr.findKV] at hf
    simp only [Tr.idsKV, List.mem_append]
    cases hx : Tr.find h v with
    | some t => exact Or.inl (mem_ids_of_find h v t hx)
    | none => rw [hx] at hf; exact Or.inr (mem_idsKV_of_findKV h kvs c hf)
end

mutual
theorem not_mem_of_find_none (h : Nat) : ∀ (t : T), Tr.find h t = none → h ∉ Tr.ids t
  | .leaf _, _ => by simp [Tr.ids]
  | .list i xs, hf => by
    simp only [Tr.find] at hf
    simp only [Tr.ids, List.mem_cons, not_or]
    split at hf
    · cases hf
    · rename_i e; exact ⟨fun e' => e e'.symm, not_mem_of_findL_none h xs hf⟩
  | .dict i kvs, hf => by
    simp only [Tr.find] at hf
    simp only [Tr.ids, List.mem_cons, not_or]
    split at hf
    · cases hf
    · rename_i e; exact ⟨fun e' => e e'.symm, not_mem_of_findKV_none h kvs hf⟩
theorem not_mem_of_findL_none (h : Nat) : ∀ (xs : List T), Tr.findL h xs = none → h ∉ Tr.idsL xs
  | [], _ => by simp [Tr.idsL]
  | x :: xs, hf => by
    simp only [Tr.findL] at hf
    simp only [Tr.idsL, List.mem_append, not_or]
    cases hx : Tr.find h x with
    | some t => rw [hx] at hf; cases hf
    | none => rw [hx] at hf; exact ⟨not_mem_of_find_none h x hx, not_mem_of_findL_none h xs hf⟩
theorem not_mem_of_findKV_none (h : Nat) : ∀ (kvs : List (Key × T)), Tr.findKV h kvs = none →
    h ∉ Tr.idsKV kvs
  | [], _ => by simp [Tr.idsKV]
  | (k, v) :: kvs, hf => by
    simp only [Tr.findKV] at hf
    simp only [Tr.idsKV, List.mem_append, not_or]
    cases hx : Tr.find h v with
    | some t => rw [hx] at hf; cases hf
    | none => rw [hx] at hf; exact ⟨not_mem_of_find_none h v hx, not_mem_of_findKV_none h kvs hf⟩
end

mutual
/-- replacing the node with identity `h` (found as `c`) by a node obtained from `c` by a step:
the whole tree makes the same kind of step -/
theorem replace_ids (h : Nat) (new : T) (n m : Nat) : ∀ (t c : T), (Tr.ids t).Nodup →
    (∀ a ∈ Tr.ids t, a < n) → Tr.find h t = some c → IdStep n (Tr.ids c) m (Tr.ids new) →
    IdStep n (Tr.ids t) m (Tr.ids (Tr.replace h new t))
  | .leaf _, _, _, _, hf, _ => by simp [Tr.find] at hf
  | .list i xs, c, hn, hb, hf, hs => by
    simp only [Tr.find] at hf
    simp only [Tr.replace]
    split at hf
    · rename_i e
      simp only [Option.some.injEq] at hf; subst hf
      rw [if_pos e]; exact hs
    · rename_i e
      rw [if_neg e]
      simp only [Tr.ids] at hn hb ⊢
      have hn' := List.nodup_cons.mp hn
      exact IdStep.container
        (replaceL_ids h new n m xs c hn'.2 (fun a ha => hb a (List.mem_cons_of_mem _ ha)) hf hs)
        hn'.1 (hb i (by simp))
  | .dict i kvs, c, hn, hb, hf, hs => by
    simp only [Tr.find] at hf
    simp only [Tr.replace]
    split at hf
    · rename_i e
      simp only [Option.some.injEq] at hf; subst hf
      rw [if_pos e]; exact hs
    · rename_i e
      rw [if_neg e]
      simp only [Tr.ids] at hn hb ⊢
      have hn' := List.nodup_cons.mp hn
      exact IdStep.container
        (replaceKV_ids h new n m kvs c hn'.2 (fun a ha => hb a (List.mem_cons_of_mem _ ha)) hf hs)
        hn'.1 (hb i (by simp))
theorem replaceL_ids (h : Nat) (new : T) (n m : Nat) : ∀ (xs : List T) (c : T), (Tr.idsL xs).Nodup →
    (∀ a ∈ Tr.idsL xs, a < n) → Tr.findL h xs = some c → IdStep n (Tr.ids c) m (Tr.ids new) →
    IdStep n (Tr.idsL xs) m (Tr.idsL (Tr.replaceL h new xs))
  | [], _, _, _, hf, _ => by simp [Tr.findL] at hf
  | x :: xs, c, hn, hb, hf, hs => by
    simp only [Tr.findL] at hf
    simp only [Tr.idsL] at hn hb
    have hnd := List.nodup_append.mp hn
    simp only [Tr.replaceL, Tr.idsL]
    cases hx : Tr.find h x with
    | some t =>
      rw [hx] at hf; simp only [Option.some.injEq] at hf; subst hf
      have hmem := mem_ids_of_find h x t hx
      have hnot : h ∉ Tr.idsL xs := fun hm => hnd.2.2 h hmem h hm rfl
      rw [replaceL_of_not_mem h new xs hnot]
      have := (replace_ids h new n m x t hnd.1 (fun a ha => hb a (List.mem_append.mpr (Or.inl ha))) hx hs).frame
        [] (Tr.idsL xs) (by simpa using hn) (by simpa using hb)
      simpa using this
    | none =>
      rw [hx] at hf
      rw [replace_of_not_mem h new x (not_mem_of_find_none h x hx)]
      have := (replaceL_ids h new n m xs c hnd.2.1 (fun a ha => hb a (List.mem_append.mpr (Or.inr ha))) hf hs).frame
        (Tr.ids x) [] (by simpa using hn) (by simpa using hb)
      simpa using this
theorem replaceKV_ids (h : Nat) (new : T) (n m : Nat) : ∀ (kvs : List (Key × T)) (c : T),
    (Tr.idsKV kvs).Nodup → (∀ a ∈ Tr.idsKV kvs, a < n) → Tr.findKV h kvs = some c →
    IdStep n (Tr.ids c) m (Tr.ids new) →
    IdStep n (Tr.idsKV kvs) m (Tr.idsKV (Tr.replaceKV h new kvs))
  | [], _, _, _, hf, _ => by simp [Tr.findKV] at hf
  | (k, v) :: kvs, c, hn, hb, hf, hs => by
    simp only [Tr.findKV] at hf
    simp only [Tr.idsKV] at hn hb
    have hnd := List.nodup_append.mp hn
    simp only [Tr.replaceKV, Tr.idsKV]
    cases hx : Tr.find h v with
    | some t =>
      rw [hx] at hf; simp only [Option.some.injEq] at hf; subst hf
      have hmem := mem_ids_of_find h v t hx
      have hnot : h ∉ Tr.idsKV kvs := fun hm => hnd.2.2 h hmem h hm rfl
      rw [replaceKV_of_not_mem h new kvs hnot]
      have := (replace_ids h new n m v t hnd.1 (fun a ha => hb a (List.mem_append.mpr (Or.inl ha))) hx hs).frame
        [] (Tr.idsKV kvs) (by simpa using hn) (by simpa using hb)
      simpa using this
    | none =>
      rw [hx] at hf
      rw [replace_of_not_mem h new v (not_mem_of_find_none h v hx)]
      have := (replaceKV_ids h new n m kvs c hnd.2.1 (fun a ha => hb a (List.mem_append.mpr (Or.inr ha))) hf hs).frame
        (Tr.ids v) [] (by simpa using hn) (by simpa using hb)
      simpa using this
end

mutual
/-- the identities of a found node are among the tree's, pairwise distinct when the tree's are -/
theorem find_ids_sublist (h : Nat) : ∀ (t c : T), Tr.find h t = some c → (Tr.ids c).Sublist (Tr.ids t)
  | .leaf _, _, hf => by simp [Tr.find] at hf
  | .list i xs, c, hf => by
    simp only [Tr.find] at hf
    split at hf
    · simp only [Option.some.injEq] at hf; subst hf; exact List.Sublist.refl _
    · simp only [Tr.ids]; exact (findL_ids_sublist h xs c hf).trans (List.sublist_cons_self _ _)
  | .dict i kvs, c, hf => by
    simp only [Tr.find] at hf
    split at hf
    · simp only [Option.some.injEq] at hf; subst hf; exact List.Sublist.refl _
    · simp only [Tr.ids]; exact (findKV_ids_sublist h kvs c hf).trans (List.sublist_cons_self _ _)
theorem findL_ids_sublist (h : Nat) : ∀ (xs : List T) (c : T), Tr.findL h xs = some c →
    (Tr.ids c).Sublist (Tr.idsL xs)
  | [], _, hf => by simp [Tr.findL] at hf
  | x :: xs, c, hf => by
    simp only [Tr.findL] at hf
    simp only [Tr.idsL]
    cases hx : Tr.find h x with
    | some t =>
      rw [hx] at hf; simp only [Option.some.injEq] at hf; subst hf
      exact (find_ids_sublist h x t hx).trans (List.sublist_append_left _ _)
    | none =>
      rw [hx] at hf
      exact (findL_ids_sublist h xs c hf).trans (List.sublist_append_right _ _)
theorem findKV_ids_sublist (h : Nat) : ∀ (kvs : List (Key × T)) (c : T), Tr.findKV h kvs = some c →
    (Tr.ids c).Sublist (Tr.idsKV kvs)
  | [], _, hf => by simp [Tr.findKV] at hf
  | (k, v) :: kvs, c, hf => by
    simp only [Tr.findKV] at hf
    simp only [Tr.idsKV]
    cases hx : Tr.find h v with
    | some t =>
      rw [hx] at hf; simp only [Option.some.injEq] at hf; subst hf
      exact (find_ids_sublist h v t hx).trans (List.sublist_append_left _ _)
    | none =>
      rw [hx] at hf
      exact (findKV_ids_sublist h kvs c hf).trans (List.sublist_append_right _ _)
end

mutual
/-- the node found by identity has that identity -/
theorem find_self_mem (h : Nat) : ∀ (t c : T), Tr.find h t = some c → h ∈ Tr.ids c
  | .leaf _, _, hf => by simp [Tr.find] at hf
  | .list i xs, c, hf => by
    simp only [Tr.find] at hf
    split at hf
    · rename_i e; simp only [Option.some.injEq] at hf; subst hf; simp [Tr.ids, e]
    · exact findL_self_mem h xs c hf
  | .dict i kvs, c, hf => by
    simp only [Tr.find] at hf
    split at hf
    · rename_i e; simp only [Option.some.injEq] at hf; subst hf; simp [Tr.ids, e]
    · exact findKV_self_mem h kvs c hf
theorem findL_self_mem (h : Nat) : ∀ (xs : List T) (c : T), Tr.findL h xs = some c → h ∈ Tr.ids c
  | [], _, hf => by simp [Tr.findL] at hf
  | x :: xs, c, hf => by
    simp only [Tr.findL] at hf
    cases hx : Tr.find h x with
    | some t => rw [hx] at hf; simp only [Option.some.injEq] at hf; subst hf; exact find_self_mem h x t hx
    | none => rw [hx] at hf; exact findL_self_mem h xs c hf
theorem findKV_self_mem (h : Nat) : ∀ (kvs : List (Key × T)) (c : T), Tr.findKV h kvs = some c → h ∈ Tr.ids c
  | [], _, hf => by simp [Tr.findKV] at hf
  | (k, v) :: kvs, c, hf => by
    simp only [Tr.findKV] at hf
    cases hx : Tr.find h v with
    | some t => rw [hx] at hf; simp only [Option.some.injEq] at hf; subst hf; exact find_self_mem h v t hx
    | none => rw [hx] at hf; exact findKV_self_mem h kvs c hf
end

/-! ### the invariant of states -/

/-- all container identities in the objects' trees, object by object -/
def flatIds (objs : List Obj) : List Nat := objs.flatMap (fun o => Tr.ids o.root)

/-- identities are pairwise distinct — within each tree and across objects — and below the counter -/
structure IdOK (s : State) : Prop where
  nodup : (flatIds s.objs).Nodup
  bound : ∀ i ∈ flatIds s.objs, i < s.next

theorem IdOK.congr {s s' : State} (h : IdOK s) (ho : s'.objs = s.objs) (hn : s'.next = s.next) : IdOK s' :=
  ⟨by rw [ho]; exact h.nodup, by rw [ho, hn]; exact h.bound⟩

theorem IdOK.of_step {s s' : State} (h : IdOK s) (hs : IdStep s.next (flatIds s.objs) s'.next (flatIds s'.objs)) :
    IdOK s' := ⟨hs.2.1, hs.bound h.bound⟩

theorem flatIds_cons (o : Obj) (l : List Obj) : flatIds (o :: l) = Tr.ids o.root ++ flatIds l := by
  simp [flatIds]

theorem ids_sublist_flat : ∀ (objs : List Obj) (j : Nat) (o : Obj), objs[j]? = some o →
    (Tr.ids o.root).Sublist (flatIds objs)
  | [], j, _, h => by simp at h
  | x :: xs, 0, o, h => by
    simp only [List.getElem?_cons_zero, Option.some.injEq] at h; subst h
    rw [flatIds_cons]; exact List.sublist_append_left _ _
  | x :: xs, j + 1, o, h => by
    simp only [List.getElem?_cons_succ] at h
    rw [flatIds_cons]; exact (ids_sublist_flat xs j o h).trans (List.sublist_append_right _ _)

/-- one object's tree makes a step: the whole state's identities make that step -/
theorem flat_set_step {n m : Nat} : ∀ (objs : List Obj) (oi : Nat) (o : Obj) (new : T),
    objs[oi]? = some o → (flatIds objs).Nodup → (∀ i ∈ flatIds objs, i < n) →
    IdStep n (Tr.ids o.root) m (Tr.ids new) →
    IdStep n (flatIds objs) m (flatIds (objs.set oi { o with root := new }))
  | [], oi, _, _, h, _, _, _ => by simp at h
  | x :: xs, 0, o, new, h, hn, hb, hs => by
    simp only [List.getElem?_cons_zero, Option.some.injEq] at h; subst h
    simp only [List.set_cons_zero, flatIds_cons] at hn hb ⊢
    have := hs.frame [] (flatIds xs) (by simpa using hn) (by simpa using hb)
    simpa using this
  | x :: xs, oi + 1, o, new, h, hn, hb, hs => by
    simp only [List.getElem?_cons_succ] at h
    simp only [List.set_cons_succ, flatIds_cons] at hn hb ⊢
    have hnd := List.nodup_append.mp hn
    have ih := flat_set_step xs oi o new h hnd.2.1 (fun i hi => hb i (List.mem_append.mpr (Or.inr hi))) hs
    have := ih.frame (Tr.ids x.root) [] (by simpa using hn) (by simpa using hb)
    simpa using this

theorem next_own (s : State) (a b c : Nat) : (s.own a b c).next = c := by
  unfold State.own; split <;> rfl

theorem loadRoot_idOK (s : State) (oi : Nat) (h : IdOK s) : IdOK (loadRoot s oi).1 := by
  unfold loadRoot
  cases ho : s.objs[oi]? with
  | none => exact h
  | some o =>
    simp only
    cases hst : s.store o.res with
    | none => exact h
    | some d =>
      simp only
      have hsub := ids_sublist_flat s.objs oi o ho
      have hs := updNode_ids (s.fam o) d o.root s.next (List.Nodup.sublist hsub h.nodup)
        (fun i hi => h.bound i (hsub.subset hi))
      have := flat_set_step s.objs oi o (updNode (s.fam o) o.root d s.next).val ho h.nodup h.bound hs
      refine h.of_step ?_
      show IdStep s.next _ ((State.own _ _ _ _).next) (flatIds (State.own _ _ _ _).objs)
      rw [next_own, objs_own]
      exact this

theorem map_replace_of_not_mem (id : Nat) (new : T) : ∀ (objs : List Obj), id ∉ flatIds objs →
    objs.map (fun o => { o with root := Tr.replace id new o.root }) = objs
  | [], _ => rfl
  | x :: xs, h => by
    rw [flatIds_cons] at h
    simp only [List.mem_append, not_or] at h
    simp only [List.map_cons, replace_of_not_mem id new x.root h.1, map_replace_of_not_mem id new xs h.2]

theorem not_mem_flat_of_findSome_none (id : Nat) : ∀ (objs : List Obj),
    objs.findSome? (fun o => Tr.find id o.root) = none → id ∉ flatIds objs
  | [], _ => by simp [flatIds]
  | x :: xs, h => by
    simp only [List.findSome?] at h
    rw [flatIds_cons]
    simp only [List.mem_append, not_or]
    cases hx : Tr.find id x.root with
    | some t => rw [hx] at h; cases h
    | none => rw [hx] at h; exact ⟨not_mem_of_find_none id x.root hx, not_mem_flat_of_findSome_none id xs h⟩

/-- storing through a handle whose node lives in some object's tree -/
theorem flat_replace_step (id : Nat) (new : T) (n m : Nat) : ∀ (objs : List Obj) (c : T),
    (flatIds objs).Nodup → (∀ i ∈ flatIds objs, i < n) →
    objs.findSome? (fun o => Tr.find id o.root) = some c → IdStep n (Tr.ids c) m (Tr.ids new) →
    IdStep n (flatIds objs) m (flatIds (objs.map (fun o => { o with root := Tr.replace id new o.root })))
  | [], _, _, _, h, _ => by simp at h
  | x :: xs, c, hn, hb, hf, hs => by
    simp only [List.findSome?] at hf
    simp only [List.map_cons, flatIds_cons] at hn hb ⊢
    have hnd := List.nodup_append.mp hn
    cases hx : Tr.find id x.root with
    | some t =>
      rw [hx] at hf; simp only [Option.some.injEq] at hf; subst hf
      have hmem := mem_ids_of_find id x.root t hx
      have hnot : id ∉ flatIds xs := fun hm => hnd.2.2 id hmem id hm rfl
      rw [map_replace_of_not_mem id new xs hnot]
      have := (replace_ids id new n m x.root t hnd.1 (fun a ha => hb a (List.mem_append.mpr (Or.inl ha))) hx hs).frame
        [] (flatIds xs) (by simpa using hn) (by simpa using hb)
      simpa using this
    | none =>
      rw [hx] at hf
      rw [replace_of_not_mem id new x.root (not_mem_of_find_none id x.root hx)]
      have := (flat_replace_step id new n m xs c hnd.2.1 (fun a ha => hb a (List.mem_append.mpr (Or.inr ha))) hf hs).frame
        (Tr.ids x.root) [] (by simpa using hn) (by simpa using hb)
      simpa using this

theorem findSome_ids_sublist (id : Nat) : ∀ (objs : List Obj) (c : T),
    objs.findSome? (fun o => Tr.find id o.root) = some c → (Tr.ids c).Sublist (flatIds objs)
  | [], _, h => by simp at h
  | x :: xs, c, hf => by
    simp only [List.findSome?] at hf
    rw [flatIds_cons]
    cases hx : Tr.find id x.root with
    | some t =>
      rw [hx] at hf; simp only [Option.some.injEq] at hf; subst hf
      exact (find_ids_sublist id x.root t hx).trans (List.sublist_append_left _ _)
    | none =>
      rw [hx] at hf
      exact (findSome_ids_sublist id xs c hf).trans (List.sublist_append_right _ _)

theorem applyBody_objs (s1 : State) (h : Handle) (oi : Nat) (r : NodeRes) :
    (applyBody s1 h oi r).objs = (putNode s1 h r.node).objs := by
  unfold applyBody
  show ((State.own _ _ _ _).objs) = _
  rw [objs_own]
theorem applyBody_next (s1 : State) (h : Handle) (oi : Nat) (r : NodeRes) :
    (applyBody s1 h oi r).next = r.next := by
  unfold applyBody
  show ((State.own _ _ _ _).next) = _
  rw [next_own]

/-- installing the result of ANY operation body through ANY handle keeps the invariant -/
theorem applyBody_idOK (fam : Fam) (s1 : State) (h : Handle) (oi : Nat) (t : T) (op : Op) (hok : IdOK s1)
    (hnode : handleNode s1 h = some t) :
    IdOK (applyBody s1 h oi (runBody fam t op s1.next)) := by
  refine hok.of_step ?_
  rw [applyBody_objs, applyBody_next]
  cases h with
  | root o' =>
    simp only [handleNode] at hnode
    cases hob : s1.objs[o']? with
    | none => simp [hob] at hnode
    | some ob =>
      simp only [hob, Option.map_some, Option.some.injEq] at hnode
      subst hnode
      have hsub := ids_sublist_flat s1.objs o' ob hob
      have hs := runBody_ids fam ob.root op s1.next (List.Nodup.sublist hsub hok.nodup)
        (fun i hi => hok.bound i (hsub.subset hi))
      simp only [putNode, hob]
      exact flat_set_step s1.objs o' ob _ hob hok.nodup hok.bound hs
  | node id =>
    simp only [handleNode, findNode] at hnode
    simp only [putNode, replaceNode]
    cases hfs : s1.objs.findSome? (fun o => Tr.find id o.root) with
    | some c =>
      rw [hfs] at hnode
      simp only [Option.some.injEq] at hnode
      subst hnode
      have hsub := findSome_ids_sublist id s1.objs c hfs
      have hs := runBody_ids fam c op s1.next (List.Nodup.sublist hsub hok.nodup)
        (fun i hi => hok.bound i (hsub.subset hi))
      exact flat_replace_step id _ s1.next _ s1.objs c hok.nodup hok.bound hfs hs
    | none =>
      rw [map_replace_of_not_mem id _ s1.objs (not_mem_flat_of_findSome_none id s1.objs hfs)]
      exact IdStep.refl_le hok.nodup (runBody_next_le fam t op s1.next)

theorem saveRoot_objs (s : State) (oi : Nat) : (saveRoot s oi).objs = s.objs := by
  unfold saveRoot; split <;> rfl
theorem saveRoot_next (s : State) (oi : Nat) : (saveRoot s oi).next = s.next := by
  unfold saveRoot; split <;> rfl

theorem loadFor_idOK (s : State) (oi : Nat) (b : Bool) (op : Op) (h : IdOK s) : IdOK (loadFor s oi b op).1 := by
  unfold loadFor
  split
  · exact h
  · exact loadRoot_idOK s oi h

/-- EVERY PUBLIC CALL keeps the invariant: any handle (root, attached or detached child, dangling),
any operation, any argument, whether it returns or raises -/
theorem call_idOK (s : State) (h : Handle) (op : Op) (hok : IdOK s) : IdOK (call s h op).1 := by
  unfold call
  split
  · rename_i oi isRoot t0 _ _
    split
    · exact hok
    · rename_i o _
      unfold callOn
      split
      · exact hok
      · have hls := loadFor_idOK s oi isRoot op hok
        dsimp only
        split
        · exact hls
        · split
          · exact hls
          · rename_i t hnode
            have := applyBody_idOK (s.fam o) (loadFor s oi isRoot op).1 h oi t op hls hnode
            unfold finishCall
            simp only
            split <;> split <;> first
              | exact this
              | exact this.congr (saveRoot_objs _ _) (saveRoot_next _ _)
  · exact hok

theorem flatIds_append (a b : List Obj) : flatIds (a ++ b) = flatIds a ++ flatIds b := by
  simp [flatIds]

theorem openObj_idOK (s : State) (fam : Nat) (isDict : Bool) (res : Nat) (data : Option J) (hok : IdOK s) :
    IdOK (openObj s fam isDict res data).1 := by
  have key : ∀ (root : T) (m : Nat), FreshIn s.next m (Tr.ids root) → s.next ≤ m →
      IdOK (({ s with objs := s.objs ++ [(⟨fam, isDict, res, root⟩ : Obj)] } : State).own s.objs.length s.next m) := by
    intro root m hf hle
    refine ⟨?_, ?_⟩
    · rw [objs_own]
      show (flatIds (s.objs ++ [_])).Nodup
      rw [flatIds_append]
      refine List.nodup_append.mpr ⟨hok.nodup, by simpa [flatIds] using hf.2, ?_⟩
      intro a ha b hb hab
      have := hok.bound a ha
      have := hf.1 b (by simpa [flatIds] using hb)
      omega
    · rw [objs_own, next_own]
      show ∀ i ∈ flatIds (s.objs ++ [_]), i < m
      rw [flatIds_append]
      intro i hi
      rcases List.mem_append.mp hi with h | h
      · have := hok.bound i h; omega
      · exact (hf.1 i (by simpa [flatIds] using h)).2
  unfold openObj
  cases data with
  | none =>
    simp only
    refine key _ (s.next + 1) ?_ (by omega)
    split <;> exact ⟨by simp [Tr.ids, Tr.idsKV, Tr.idsL], by simp [Tr.ids, Tr.idsKV, Tr.idsL]⟩
  | some d =>
    simp only
    split
    · exact hok
    · split
      · exact hok
      · have hf := fromBase_fresh d s.next
        exact key _ _ hf.2 hf.1

theorem extWrite_idOK (s : State) (res : Nat) (d : J) (hok : IdOK s) : IdOK (extWrite s res d) :=
  hok.congr rfl rfl

theorem empty_idOK (fams : List Fam) : IdOK (State.empty fams) :=
  ⟨by simp [State.empty, flatIds], by simp [State.empty, flatIds]⟩

/-! ### what the invariant gives for one handle -/

/-- identities of different objects are disjoint -/
theorem flat_disjoint : ∀ (objs : List Obj) (j k : Nat) (a b : Obj), (flatIds objs).Nodup →
    objs[j]? = some a → objs[k]? = some b → j < k → ∀ i ∈ Tr.ids a.root, i ∉ Tr.ids b.root
  | [], j, _, _, _, _, h, _, _ => by simp at h
  | x :: xs, 0, k + 1, a, b, hn, ha, hb, _ => by
    simp only [List.getElem?_cons_zero, Option.some.injEq] at ha; subst ha
    simp only [List.getElem?_cons_succ] at hb
    rw [flatIds_cons] at hn
    intro i hi hib
    exact (List.nodup_append.mp hn).2.2 i hi i ((ids_sublist_flat xs k b hb).subset hib) rfl
  | x :: xs, j + 1, k + 1, a, b, hn, ha, hb, hlt => by
    simp only [List.getElem?_cons_succ] at ha hb
    rw [flatIds_cons] at hn
    exact flat_disjoint xs j k a b (List.nodup_append.mp hn).2.1 ha hb (by omega)
  | x :: xs, j + 1, 0, _, _, _, _, _, hlt => by omega
  | x :: xs, 0, 0, _, _, _, _, _, hlt => by omega

/-- THE INVARIANT ALONG EVERY HISTORY -/
theorem srun_idOK : ∀ (history : List SStep) (s : State), IdOK s → IdOK (srun s history)
  | [], _, h => h
  | st :: rest, s, h => by
    have hstep : IdOK (sstep s st) := by
      cases st with
      | call hd op => exact call_idOK s hd op h
      | openObj d r data => exact openObj_idOK s 0 d r data h
      | ext r d => exact extWrite_idOK s r d h
    exact srun_idOK rest (sstep s st) hstep

/-! ### a detached handle -/

theorem findSome?_append_left {α β : Type} (f : α → Option β) : ∀ (a b : List α) (x : β),
    a.findSome? f = some x → (a ++ b).findSome? f = some x
  | [], _, _, h => by simp at h
  | y :: ys, b, x, h => by
    simp only [List.findSome?, List.cons_append] at h ⊢
    cases hy : f y with
    | some z => rw [hy] at h; exact h
    | none => rw [hy] at h; exact findSome?_append_left f ys b x h

theorem findSome_self_mem (id : Nat) : ∀ (objs : List Obj) (c : T),
    objs.findSome? (fun o => Tr.find id o.root) = some c → id ∈ Tr.ids c
  | [], _, h => by simp at h
  | x :: xs, c, hf => by
    simp only [List.findSome?] at hf
    cases hx : Tr.find id x.root with
    | some t =>
      rw [hx] at hf; simp only [Option.some.injEq] at hf; subst hf
      exact find_self_mem id x.root t hx
    | none => rw [hx] at hf; exact findSome_self_mem id xs c hf

theorem detached_own (s : State) (a b c : Nat) : (s.own a b c).detached = s.detached := by
  unfold State.own; split <;> rfl

/-- THE CONVERSE OF ATTACHMENT.  The user holds a nested collection whose position was reassigned,
removed or changed kind: its identity `id` is in no object's tree any more (it lives on among the
detached nodes, still usable).  A mutation through it loads and saves its root like any other call
— and that is ALL the backend sees: the resource ends up holding the merged content of the root,
exactly what a bare load-and-save would leave; nothing of the operation's argument or effect
reaches the backend, and no other position is disturbed. -/
theorem call_detached_refines (s : State) (oi id : Nat) (o : Obj) (d : J) (t0 : T) (op : Op)
    (ho : s.objs[oi]? = some o) (hst : s.store o.res = some d) (hown : s.ownerOf id = some oi)
    (hok : IdOK s) (hnot : id ∉ flatIds s.objs) (hlt : id < s.next)
    (hdet : s.detached.findSome? (fun p => Tr.find id p.2) = some t0)
    (herr : (updNode (s.fam o) o.root d s.next).err = none)
    (hns : op.skipsLoad = false) (hm : op.isRead = false)
    (hpre : preValidate (s.fam o) t0.isDict op = none) :
    (call s (.node id) op).1.store o.res = some (updNode (s.fam o) o.root d s.next).val.toBase := by
  have hlto : oi < s.objs.length := (List.getElem?_eq_some_iff.mp ho).1
  have hnone0 : s.objs.findSome? (fun o => Tr.find id o.root) = none := by
    cases hf : s.objs.findSome? (fun o => Tr.find id o.root) with
    | none => rfl
    | some c =>
      exact absurd ((findSome_ids_sublist id s.objs c hf).subset (findSome_self_mem id s.objs c hf)) hnot
  have hfind0 : findNode s id = some t0 := by
    unfold findNode; rw [hnone0]; exact hdet
  have hload := loadRoot_eq s oi o d ho hst
  have hlf : loadFor s oi false op = loadRoot s oi := by simp [loadFor, hns]
  have herr1 : (loadRoot s oi).2 = none := by rw [hload]; exact herr
  -- after the load the identity is still in no object's tree
  have hok1 : IdOK (loadRoot s oi).1 := loadRoot_idOK s oi hok
  have hsub := ids_sublist_flat s.objs oi o ho
  have hs := updNode_ids (s.fam o) d o.root s.next (List.Nodup.sublist hsub hok.nodup)
    (fun i hi => hok.bound i (hsub.subset hi))
  have hobjs1 : (loadRoot s oi).1.objs = s.objs.set oi { o with root := (updNode (s.fam o) o.root d s.next).val } := by
    rw [hload]
    show ((State.own _ _ _ _).objs) = _
    rw [objs_own]
    rfl
  have hstep := flat_set_step s.objs oi o (updNode (s.fam o) o.root d s.next).val ho hok.nodup hok.bound hs
  have hnot1 : id ∉ flatIds (loadRoot s oi).1.objs := by
    rw [hobjs1]
    intro hin
    rcases hstep.2.2 id hin with h | h
    · exact hnot h
    · omega
  have hnone1 : (loadRoot s oi).1.objs.findSome? (fun o => Tr.find id o.root) = none := by
    cases hf : (loadRoot s oi).1.objs.findSome? (fun o => Tr.find id o.root) with
    | none => rfl
    | some c =>
      exfalso
      exact hnot1 ((findSome_ids_sublist id (loadRoot s oi).1.objs c hf).subset (findSome_self_mem id _ c hf))
  have hdet1 : (loadRoot s oi).1.detached.findSome? (fun p => Tr.find id p.2) = some t0 := by
    have hd : (loadRoot s oi).1.detached = s.detached ++
        (containers (updNode (s.fam o) o.root d s.next).det).map (fun t => (oi, t)) := by
      rw [hload]
      show ((State.own _ _ _ _).detached ++ _) = _
      rw [detached_own]
      rfl
    rw [hd]
    exact findSome?_append_left _ _ _ _ hdet
  have hnode1 : handleNode (loadRoot s oi).1 (.node id) = some t0 := by
    show findNode _ id = some t0
    unfold findNode; rw [hnone1]; exact hdet1
  have hobj1 : (loadRoot s oi).1.objs[oi]? = some { o with root := (updNode (s.fam o) o.root d s.next).val } := by
    rw [hobjs1]; exact List.getElem?_set_self hlto
  have hownr : handleOwner s (.node id) = some (oi, false) := by simp [handleOwner, hown]
  have hn0 : handleNode s (.node id) = some t0 := hfind0
  unfold call
  simp only [hownr, hn0, ho]
  unfold callOn
  simp only [hpre, hlf, herr1, hnode1]
  unfold finishCall
  simp only [hm, Bool.false_eq_true, if_false]
  have hsave : ∀ (x : State) (ob : Obj), x.objs[oi]? = some ob → (saveRoot x oi).store ob.res = some ob.root.toBase := by
    intro x ob hx
    unfold saveRoot; simp only [hx]; exact State.store_setStore _ _ _
  have hobj2 : (applyBody (loadRoot s oi).1 (.node id) oi
      (runBody (s.fam o) t0 op (loadRoot s oi).1.next)).objs[oi]? =
      some { o with root := (updNode (s.fam o) o.root d s.next).val } := by
    rw [applyBody_objs]
    simp only [putNode, replaceNode]
    rw [map_replace_of_not_mem id _ _ hnot1]
    exact hobj1
  have := hsave _ _ hobj2
  split <;> exact this

/-! ### ownership: a child knows its root -/

/-- the owner table as a pure function of the list of ranges -/
def ownerOfL (owners : List (Nat × Nat × Nat)) (id : Nat) : Option Nat :=
  (owners.find? (fun r => r.2.1 ≤ id ∧ id < r.2.2)).map (·.1)

def ownList (owners : List (Nat × Nat × Nat)) (a lo hi : Nat) : List (Nat × Nat × Nat) :=
  if lo < hi then owners ++ [(a, lo, hi)] else owners

theorem ownerOf_eq (s : State) (id : Nat) : s.ownerOf id = ownerOfL s.owners id := rfl

theorem owners_own (s : State) (a lo hi : Nat) : (s.own a lo hi).owners = ownList s.owners a lo hi := by
  unfold State.own ownList; split <;> rfl

/-- an identity that has an owner keeps it when a range is added -/
theorem ownerOfL_stable (owners : List (Nat × Nat × Nat)) (a lo hi id b : Nat)
    (h : ownerOfL owners id = some b) : ownerOfL (ownList owners a lo hi) id = some b := by
  unfold ownList
  split
  · unfold ownerOfL at h ⊢
    rw [List.find?_append]
    generalize (fun r : Nat × Nat × Nat => decide (r.2.1 ≤ id ∧ id < r.2.2)) = p at h ⊢
    cases hf : owners.find? p with
    | none => rw [hf] at h; cases h
    | some r => rw [hf] at h; exact h
  · exact h

/-- below the new range nothing changes -/
theorem ownerOfL_old (owners : List (Nat × Nat × Nat)) (a lo hi id : Nat) (h : id < lo) :
    ownerOfL (ownList owners a lo hi) id = ownerOfL owners id := by
  unfold ownList
  split
  · unfold ownerOfL
    rw [List.find?_append]
    cases hf : owners.find? (fun r => r.2.1 ≤ id ∧ id < r.2.2) with
    | some r => simp
    | none =>
      have : ¬ (lo ≤ id ∧ id < hi) := by omega
      simp [List.find?, this]
  · rfl

/-- a newly drawn identity belongs to the object the range was recorded for -/
theorem ownerOfL_new (owners : List (Nat × Nat × Nat)) (a lo hi id : Nat)
    (hr : ∀ r ∈ owners, r.2.2 ≤ lo) (h1 : lo ≤ id) (h2 : id < hi) :
    ownerOfL (ownList owners a lo hi) id = some a := by
  unfold ownList
  have hlt : lo < hi := by omega
  rw [if_pos hlt]
  unfold ownerOfL
  rw [List.find?_append]
  have hnone : owners.find? (fun r => decide (r.2.1 ≤ id ∧ id < r.2.2)) = none := by
    rw [List.find?_eq_none]
    intro r hrm
    have := hr r hrm
    simp only [decide_eq_true_eq, not_and]
    intro _; omega
  rw [hnone]
  have hp : decide (lo ≤ id ∧ id < hi) = true := decide_eq_true ⟨h1, h2⟩
  show Option.map _ (none.or (List.find? _ [(a, lo, hi)])) = some a
  rw [List.find?_cons_of_pos (by simpa using hp)]
  rfl

theorem ranges_ownList (owners : List (Nat × Nat × Nat)) (a lo hi : Nat)
    (hr : ∀ r ∈ owners, r.2.2 ≤ lo) (hle : lo ≤ hi) : ∀ r ∈ ownList owners a lo hi, r.2.2 ≤ hi := by
  unfold ownList
  intro r hrm
  split at hrm
  · rcases List.mem_append.mp hrm with h | h
    · have := hr r h; omega
    · simp only [List.mem_singleton] at h; subst h; exact Nat.le_refl _
  · have := hr r hrm; omega

/-- every range ends below the counter, and every identity in an object's tree was allocated on
behalf of that object (so a nested child finds the root that loads and saves for it) -/
structure OwnOK (s : State) : Prop where
  ranges : ∀ r ∈ s.owners, r.2.2 ≤ s.next
  owner : ∀ j o, s.objs[j]? = some o → ∀ i ∈ Tr.ids o.root, s.ownerOf i = some j

/-- an identity that has an owner was allocated: it lies below the counter -/
theorem lt_next_of_owner {s : State} (hown : OwnOK s) {id a : Nat} (h : s.ownerOf id = some a) : id < s.next := by
  rw [ownerOf_eq] at h
  unfold ownerOfL at h
  cases hf : s.owners.find? (fun r => decide (r.2.1 ≤ id ∧ id < r.2.2)) with
  | none => rw [hf] at h; cases h
  | some r =>
    have hp := List.find?_some hf
    have hm := List.mem_of_find?_eq_some hf
    simp only [decide_eq_true_eq] at hp
    have := hown.ranges r hm
    omega

/-- one object's tree makes a step and the new identities are recorded for that object -/
theorem ownOK_set (s s' : State) (j : Nat) (oj : Obj) (new : T) (m : Nat) (hok : IdOK s) (hown : OwnOK s)
    (hj : s.objs[j]? = some oj) (hs : IdStep s.next (Tr.ids oj.root) m (Tr.ids new))
    (hobjs : s'.objs = s.objs.set j { oj with root := new })
    (howners : s'.owners = ownList s.owners j s.next m) (hnext : s'.next = m) : OwnOK s' := by
  refine ⟨?_, ?_⟩
  · rw [howners, hnext]; exact ranges_ownList _ _ _ _ hown.ranges hs.1
  · intro k o hk i hi
    rw [ownerOf_eq, howners]
    rw [hobjs] at hk
    by_cases hkj : k = j
    · subst hkj
      have hlt : k < s.objs.length := (List.getElem?_eq_some_iff.mp hj).1
      rw [List.getElem?_set_self hlt] at hk
      simp only [Option.some.injEq] at hk; subst hk
      rcases hs.2.2 i hi with ho | hf
      · exact ownerOfL_stable _ _ _ _ _ _ (hown.owner k oj hj i ho)
      · exact ownerOfL_new _ _ _ _ _ hown.ranges hf.1 hf.2
    · rw [List.getElem?_set_ne (fun e => hkj e.symm)] at hk
      exact ownerOfL_stable _ _ _ _ _ _ (hown.owner k o hk i hi)

/-- the objects did not change; a range was recorded -/
theorem ownOK_same (s s' : State) (a m : Nat) (hown : OwnOK s) (hle : s.next ≤ m)
    (hobjs : s'.objs = s.objs) (howners : s'.owners = ownList s.owners a s.next m) (hnext : s'.next = m) :
    OwnOK s' := by
  refine ⟨?_, ?_⟩
  · rw [howners, hnext]; exact ranges_ownList _ _ _ _ hown.ranges hle
  · intro k o hk i hi
    rw [ownerOf_eq, howners]
    rw [hobjs] at hk
    exact ownerOfL_stable _ _ _ _ _ _ (hown.owner k o hk i hi)

theorem loadRoot_owners (s : State) (oi : Nat) (o : Obj) (d : J) (ho : s.objs[oi]? = some o)
    (hst : s.store o.res = some d) :
    (loadRoot s oi).1.owners = ownList s.owners oi s.next (updNode (s.fam o) o.root d s.next).next := by
  rw [loadRoot_eq s oi o d ho hst]
  show ((State.own _ _ _ _).owners) = _
  rw [owners_own]; rfl

theorem loadRoot_ownOK (s : State) (oi : Nat) (hok : IdOK s) (hown : OwnOK s) : OwnOK (loadRoot s oi).1 := by
  cases ho : s.objs[oi]? with
  | none => unfold loadRoot; simp only [ho]; exact hown
  | some o =>
    cases hst : s.store o.res with
    | none => unfold loadRoot; simp only [ho, hst]; exact hown
    | some d =>
      have hsub := ids_sublist_flat s.objs oi o ho
      have hs := updNode_ids (s.fam o) d o.root s.next (List.Nodup.sublist hsub hok.nodup)
        (fun i hi => hok.bound i (hsub.subset hi))
      refine ownOK_set s _ oi o _ _ hok hown ho hs ?_ (loadRoot_owners s oi o d ho hst) ?_
      · rw [loadRoot_eq s oi o d ho hst]
        show ((State.own _ _ _ _).objs) = _
        rw [objs_own]
        rfl
      · rw [loadRoot_eq s oi o d ho hst]
        show ((State.own _ _ _ _).next) = _
        rw [next_own]

/-- an owner once recorded stays recorded across a load -/
theorem loadFor_ownerOf (s : State) (oi : Nat) (b : Bool) (op : Op) (id a : Nat)
    (h : s.ownerOf id = some a) : (loadFor s oi b op).1.ownerOf id = some a := by
  unfold loadFor
  split
  · exact h
  · cases ho : s.objs[oi]? with
    | none => unfold loadRoot; simp only [ho]; exact h
    | some o =>
      cases hst : s.store o.res with
      | none => unfold loadRoot; simp only [ho, hst]; exact h
      | some d =>
        rw [ownerOf_eq, loadRoot_owners s oi o d ho hst]
        exact ownerOfL_stable _ _ _ _ _ _ h

theorem loadFor_ownOK (s : State) (oi : Nat) (b : Bool) (op : Op) (hok : IdOK s) (hown : OwnOK s) :
    OwnOK (loadFor s oi b op).1 := by
  unfold loadFor
  split
  · exact hown
  · exact loadRoot_ownOK s oi hok hown

theorem putNode_owners (s : State) (h : Handle) (t : T) : (putNode s h t).owners = s.owners := by
  unfold putNode
  cases h with
  | root o => simp only; split <;> rfl
  | node id => rfl

theorem applyBody_owners (s1 : State) (h : Handle) (oi : Nat) (r : NodeRes) :
    (applyBody s1 h oi r).owners = ownList s1.owners oi s1.next r.next := by
  unfold applyBody
  show ((State.own _ _ _ _).owners) = _
  rw [owners_own, putNode_owners]

/-- where storing through a node handle lands: in the one object whose tree holds the identity -/
theorem map_replace_eq_set (id : Nat) (new : T) : ∀ (objs : List Obj) (c : T), (flatIds objs).Nodup →
    objs.findSome? (fun o => Tr.find id o.root) = some c →
    ∃ j oj, objs[j]? = some oj ∧ Tr.find id oj.root = some c ∧
      objs.map (fun o => { o with root := Tr.replace id new o.root }) =
        objs.set j { oj with root := Tr.replace id new oj.root }
  | [], _, _, h => by simp at h
  | x :: xs, c, hn, hf => by
    simp only [List.findSome?] at hf
    rw [flatIds_cons] at hn
    have hnd := List.nodup_append.mp hn
    cases hx : Tr.find id x.root with
    | some t =>
      rw [hx] at hf; simp only [Option.some.injEq] at hf; subst hf
      have hmem := mem_ids_of_find id x.root t hx
      have hnot : id ∉ flatIds xs := fun hm => hnd.2.2 id hmem id hm rfl
      refine ⟨0, x, by simp, hx, ?_⟩
      simp only [List.map_cons, List.set_cons_zero, map_replace_of_not_mem id new xs hnot]
    | none =>
      rw [hx] at hf
      obtain ⟨j, oj, hj, hfj, heq⟩ := map_replace_eq_set id new xs c hnd.2.1 hf
      refine ⟨j + 1, oj, by simpa using hj, hfj, ?_⟩
      simp only [List.map_cons, List.set_cons_succ, heq,
        replace_of_not_mem id new x.root (not_mem_of_find_none id x.root hx)]

/-- installing the result of any operation body keeps the ownership invariant, provided the
object that performs load/save for the handle is the one recorded for it -/
theorem applyBody_ownOK (fam : Fam) (s1 : State) (h : Handle) (oi : Nat) (t : T) (op : Op)
    (hok : IdOK s1) (hown : OwnOK s1) (hnode : handleNode s1 h = some t)
    (howner : (∀ o', h = .root o' → oi = o') ∧ (∀ id, h = .node id → s1.ownerOf id = some oi)) :
    OwnOK (applyBody s1 h oi (runBody fam t op s1.next)) := by
  cases h with
  | root o' =>
    have howner := howner.1 o' rfl
    subst howner
    simp only [handleNode] at hnode
    cases hob : s1.objs[oi]? with
    | none => simp [hob] at hnode
    | some ob =>
      simp only [hob, Option.map_some, Option.some.injEq] at hnode
      subst hnode
      have hsub := ids_sublist_flat s1.objs oi ob hob
      have hs := runBody_ids fam ob.root op s1.next (List.Nodup.sublist hsub hok.nodup)
        (fun i hi => hok.bound i (hsub.subset hi))
      refine ownOK_set s1 _ oi ob _ _ hok hown hob hs ?_ (applyBody_owners _ _ _ _) (applyBody_next _ _ _ _)
      rw [applyBody_objs]
      simp only [putNode, hob]
      rfl
  | node id =>
    have howner := howner.2 id rfl
    simp only [handleNode, findNode] at hnode
    cases hfs : s1.objs.findSome? (fun o => Tr.find id o.root) with
    | some c =>
      rw [hfs] at hnode
      simp only [Option.some.injEq] at hnode
      subst hnode
      obtain ⟨j, oj, hj, hfj, heq⟩ := map_replace_eq_set id (runBody fam c op s1.next).node s1.objs c hok.nodup hfs
      have hjoi : j = oi := by
        have := hown.owner j oj hj id (mem_ids_of_find id oj.root c hfj)
        rw [howner] at this
        exact (Option.some.inj this).symm
      subst hjoi
      have hsubj := ids_sublist_flat s1.objs j oj hj
      have hsub := find_ids_sublist id oj.root c hfj
      have hs := runBody_ids fam c op s1.next (List.Nodup.sublist (hsub.trans hsubj) hok.nodup)
        (fun i hi => hok.bound i ((hsub.trans hsubj).subset hi))
      have hs2 := replace_ids id (runBody fam c op s1.next).node s1.next _ oj.root c
        (List.Nodup.sublist hsubj hok.nodup) (fun i hi => hok.bound i (hsubj.subset hi)) hfj hs
      refine ownOK_set s1 _ j oj _ _ hok hown hj hs2 ?_ (applyBody_owners _ _ _ _) (applyBody_next _ _ _ _)
      rw [applyBody_objs]
      simp only [putNode, replaceNode]
      exact heq
    | none =>
      refine ownOK_same s1 _ oi _ hown (runBody_next_le fam t op s1.next) ?_ (applyBody_owners _ _ _ _)
        (applyBody_next _ _ _ _)
      rw [applyBody_objs]
      simp only [putNode, replaceNode]
      exact map_replace_of_not_mem id _ s1.objs (not_mem_flat_of_findSome_none id s1.objs hfs)

theorem saveRoot_owners (s : State) (oi : Nat) : (saveRoot s oi).owners = s.owners := by
  unfold saveRoot; split <;> rfl

theorem OwnOK.congr {s s' : State} (h : OwnOK s) (ho : s'.objs = s.objs) (hw : s'.owners = s.owners)
    (hn : s'.next = s.next) : OwnOK s' :=
  ⟨by rw [hw, hn]; exact h.ranges, by
    intro j o hj i hi
    rw [ownerOf_eq, hw]; rw [ho] at hj
    exact h.owner j o hj i hi⟩

/-- EVERY PUBLIC CALL keeps the ownership invariant -/
theorem call_ownOK (s : State) (h : Handle) (op : Op) (hok : IdOK s) (hown : OwnOK s) :
    OwnOK (call s h op).1 := by
  unfold call
  split
  · rename_i oi isRoot t0 hho _
    split
    · exact hown
    · rename_i o _
      unfold callOn
      split
      · exact hown
      · have hls := loadFor_idOK s oi isRoot op hok
        have hlo := loadFor_ownOK s oi isRoot op hok hown
        dsimp only
        split
        · exact hlo
        · split
          · exact hlo
          · rename_i t hnode
            have howner : (∀ o', h = .root o' → oi = o') ∧
                (∀ id, h = .node id → (loadFor s oi isRoot op).1.ownerOf id = some oi) := by
              refine ⟨fun o' e => ?_, fun id e => ?_⟩
              · subst e
                simp only [handleOwner] at hho
                split at hho
                · simp only [Option.some.injEq, Prod.mk.injEq] at hho; exact hho.1.symm
                · cases hho
              · subst e
                simp only [handleOwner] at hho
                cases hw : s.ownerOf id with
                | none => simp [hw] at hho
                | some a =>
                  simp only [hw, Option.map_some, Option.some.injEq, Prod.mk.injEq] at hho
                  have := loadFor_ownerOf s oi isRoot op id a hw
                  rw [hho.1] at this
                  exact this
            have := applyBody_ownOK (s.fam o) (loadFor s oi isRoot op).1 h oi t op hls hlo hnode howner
            unfold finishCall
            simp only
            split <;> split <;> first
              | exact this
              | exact this.congr (saveRoot_objs _ _) (saveRoot_owners _ _) (saveRoot_next _ _)
  · exact hown

theorem openObj_ownOK (s : State) (fam : Nat) (isDict : Bool) (res : Nat) (data : Option J) (hok : IdOK s)
    (hown : OwnOK s) : OwnOK (openObj s fam isDict res data).1 := by
  have key : ∀ (root : T) (m : Nat), FreshIn s.next m (Tr.ids root) → s.next ≤ m →
      OwnOK (({ s with objs := s.objs ++ [(⟨fam, isDict, res, root⟩ : Obj)] } : State).own s.objs.length s.next m) := by
    intro root m hf hle
    refine ⟨?_, ?_⟩
    · rw [owners_own, next_own]; exact ranges_ownList _ _ _ _ hown.ranges hle
    · intro k o hk i hi
      rw [ownerOf_eq, owners_own]
      rw [objs_own] at hk
      change (s.objs ++ [_])[k]? = some o at hk
      by_cases hlt : k < s.objs.length
      · rw [List.getElem?_append_left hlt] at hk
        exact ownerOfL_stable _ _ _ _ _ _ (hown.owner k o hk i hi)
      · rw [List.getElem?_append_right (by omega)] at hk
        have hk0 : k - s.objs.length = 0 := by
          cases hkk : k - s.objs.length with
          | zero => rfl
          | succ q => rw [hkk] at hk; simp at hk
        rw [hk0] at hk
        simp only [List.getElem?_cons_zero, Option.some.injEq] at hk
        subst hk
        have hkeq : k = s.objs.length := by omega
        subst hkeq
        have := hf.1 i hi
        exact ownerOfL_new _ _ _ _ _ hown.ranges this.1 this.2
  unfold openObj
  cases data with
  | none =>
    simp only
    refine key _ (s.next + 1) ?_ (by omega)
    split <;> exact ⟨by simp [Tr.ids, Tr.idsKV, Tr.idsL], by simp [Tr.ids, Tr.idsKV, Tr.idsL]⟩
  | some d =>
    simp only
    split
    · exact hown
    · split
      · exact hown
      · have hf := fromBase_fresh d s.next
        exact key _ _ hf.2 hf.1

theorem extWrite_ownOK (s : State) (res : Nat) (d : J) (hown : OwnOK s) : OwnOK (extWrite s res d) :=
  hown.congr rfl rfl rfl

theorem empty_ownOK (fams : List Fam) : OwnOK (State.empty fams) :=
  ⟨by simp [State.empty], by simp [State.empty]⟩

/-- both invariants along every history -/
theorem srun_ownOK : ∀ (history : List SStep) (s : State), IdOK s → OwnOK s →
    IdOK (srun s history) ∧ OwnOK (srun s history)
  | [], _, h, ho => ⟨h, ho⟩
  | st :: rest, s, h, ho => by
    have hstep : IdOK (sstep s st) ∧ OwnOK (sstep s st) := by
      cases st with
      | call hd op => exact ⟨call_idOK s hd op h, call_ownOK s hd op h ho⟩
      | openObj d r data => exact ⟨openObj_idOK s 0 d r data h, openObj_ownOK s 0 d r data h ho⟩
      | ext r d => exact ⟨extWrite_idOK s r d h, extWrite_ownOK s r d ho⟩
    exact srun_ownOK rest (sstep s st) hstep.1 hstep.2

end SC
