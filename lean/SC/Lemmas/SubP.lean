/-
"Up to order, a selection": the content of a container after a built-in `dict` / `list` method is,
up to order, a selection of the old elements and the new ones, each used at most once.  This is
what carries pairwise distinct identities through every operation body.
-/
import SC.Builtin
namespace SC
variable {α β : Type}

/-- `ys` is, up to order, a selection of the elements of `zs` (each occurrence used at most once) -/
def SubP (ys zs : List α) : Prop := ∃ ws, ys.Perm ws ∧ ws.Sublist zs

namespace SubP

theorem refl (l : List α) : SubP l l := ⟨l, .refl _, .refl _⟩
theorem of_sublist {ys zs : List α} (h : ys.Sublist zs) : SubP ys zs := ⟨ys, .refl _, h⟩
theorem of_perm {ys zs : List α} (h : ys.Perm zs) : SubP ys zs := ⟨zs, h, .refl _⟩

theorem trans {xs ys zs : List α} (h1 : SubP xs ys) (h2 : SubP ys zs) : SubP xs zs := by
  obtain ⟨a, pa, sa⟩ := h1
  obtain ⟨b, pb, sb⟩ := h2
  obtain ⟨a', pa', sa'⟩ := List.exists_perm_sublist sa pb
  exact ⟨a', pa.trans pa'.symm, sa'.trans sb⟩

theorem append {a b c d : List α} (h1 : SubP a b) (h2 : SubP c d) : SubP (a ++ c) (b ++ d) := by
  obtain ⟨x, px, sx⟩ := h1
  obtain ⟨y, py, sy⟩ := h2
  exact ⟨x ++ y, px.append py, sx.append sy⟩

theorem cons (x : α) {a b : List α} (h : SubP a b) : SubP (x :: a) (x :: b) := by
  obtain ⟨w, pw, sw⟩ := h
  exact ⟨x :: w, pw.cons x, sw.cons_cons x⟩

theorem nodup {ys zs : List α} (h : SubP ys zs) (hn : zs.Nodup) : ys.Nodup := by
  obtain ⟨w, pw, sw⟩ := h
  exact (List.Nodup.sublist sw hn).perm pw.symm

theorem subset {ys zs : List α} (h : SubP ys zs) : ∀ a ∈ ys, a ∈ zs := by
  obtain ⟨w, pw, sw⟩ := h
  intro a ha
  exact sw.subset (pw.subset ha)

theorem sublist_flatMap (f : α → List β) : ∀ {l1 l2 : List α}, l1.Sublist l2 →
    (l1.flatMap f).Sublist (l2.flatMap f)
  | _, _, .slnil => by simp
  | _, _, .cons a h => by
    simp only [List.flatMap_cons]
    exact (sublist_flatMap f h).trans (List.sublist_append_right _ _)
  | _, _, .cons_cons a h => by
    simp only [List.flatMap_cons]
    exact (List.Sublist.refl _).append (sublist_flatMap f h)

theorem flatMap (f : α → List β) {ys zs : List α} (h : SubP ys zs) :
    SubP (ys.flatMap f) (zs.flatMap f) := by
  obtain ⟨w, pw, sw⟩ := h
  exact ⟨w.flatMap f, pw.flatMap_right f, sublist_flatMap f sw⟩

end SubP

/-! ### list primitives -/

theorem set_subp : ∀ (xs : List α) (j : Nat) (v : α), SubP (xs.set j v) (xs ++ [v])
  | [], _, _ => SubP.of_sublist (by simp)
  | x :: xs, 0, v => by
    simp only [List.set_cons_zero, List.cons_append]
    refine ⟨xs ++ [v], ?_, List.Sublist.cons _ (List.Sublist.refl _)⟩
    exact (List.perm_append_singleton v xs).symm
  | x :: xs, j + 1, v => by
    simp only [List.set_cons_succ, List.cons_append]
    exact SubP.cons x (set_subp xs j v)

theorem setMany_subp : ∀ (is : List Nat) (vs : List α) (xs : List α), SubP (Py.setMany xs is vs) (xs ++ vs)
  | [], vs, xs => by simp only [Py.setMany]; exact SubP.of_sublist (List.sublist_append_left _ _)
  | _ :: _, [], xs => by simp only [Py.setMany]; exact SubP.of_sublist (List.sublist_append_left _ _)
  | i :: is, v :: vs, xs => by
    simp only [Py.setMany]
    refine (setMany_subp is vs (xs.set i v)).trans ?_
    have := SubP.append (set_subp xs i v) (SubP.refl vs)
    simpa using this

theorem take_drop_sublist (xs : List α) {a b : Nat} (h : a ≤ b) : (xs.take a ++ xs.drop b).Sublist xs := by
  have h1 : (xs.take a ++ xs.drop b).Sublist (xs.take a ++ xs.drop a) :=
    (List.Sublist.refl _).append (List.drop_sublist_drop_left xs h)
  simpa using h1

theorem eraseMany_sublist (xs : List α) (is : List Nat) : (Py.eraseMany xs is).Sublist xs := by
  unfold Py.eraseMany
  have h : ((xs.zipIdx.filter (fun p => !is.contains p.2)).map (·.1)).Sublist (xs.zipIdx.map (·.1)) :=
    List.Sublist.map _ List.filter_sublist
  simpa using h

theorem insertAt_perm (xs : List α) (i : Int) (x : α) : (Py.insertAt xs i x).Perm (xs ++ [x]) := by
  unfold Py.insertAt
  simp only
  generalize (if i < 0 then (if i + (xs.length : Int) < 0 then 0 else i + (xs.length : Int))
      else (if i > (xs.length : Int) then (xs.length : Int) else i)).toNat = j
  have h1 : (xs.take j ++ x :: xs.drop j).Perm (x :: (xs.take j ++ xs.drop j)) := List.perm_middle
  rw [List.take_append_drop] at h1
  exact h1.trans (List.perm_append_singleton x xs).symm

/-- the new elements an operation brings in -/
def ListMut.news : ListMut α → List α
  | .setitem _ v => [v]
  | .setslice _ vs => vs
  | .insert _ v => [v]
  | .append v => [v]
  | .extend vs => vs
  | _ => []

def DictMut.news : DictMut α → List (Key × α)
  | .setitem k v => [(k, v)]
  | _ => []

/-! ### every `list` method -/

theorem listMut_subp {ι : Type} (xs : List (Tr ι)) (m : ListMut (Tr ι)) (r : BodyRes (List (Tr ι)) ι)
    (h : listMut xs m = .ok r) : SubP r.data (xs ++ ListMut.news m) := by
  cases m with
  | setitem i v =>
    simp only [listMut] at h
    split at h
    · cases h
    · cases h; exact set_subp xs _ v
  | setslice s vs =>
    simp only [listMut] at h
    split at h
    · cases h
    · rename_i start stop step _
      split at h
      · cases h
        simp only [ListMut.news]
        have hab : start.toNat ≤ (max start stop).toNat := by omega
        have h1 : SubP (xs.take start.toNat ++ xs.drop (max start stop).toNat) xs :=
          SubP.of_sublist (take_drop_sublist xs hab)
        have h2 : (xs.take start.toNat ++ vs ++ xs.drop (max start stop).toNat).Perm
            ((xs.take start.toNat ++ xs.drop (max start stop).toNat) ++ vs) := by
          rw [List.append_assoc, List.append_assoc]
          exact List.Perm.append_left _ List.perm_append_comm
        exact (SubP.of_perm h2).trans (SubP.append h1 (SubP.refl vs))
      · split at h
        · cases h
        · cases h; exact setMany_subp _ vs xs
  | delitem ix =>
    cases ix with
    | i i =>
      simp only [listMut] at h
      split at h
      · cases h
      · cases h
        simp only [ListMut.news, List.append_nil]
        exact SubP.of_sublist (List.eraseIdx_sublist xs _)
    | sl s =>
      simp only [listMut] at h
      split at h
      · cases h
      · cases h
        simp only [ListMut.news, List.append_nil]
        exact SubP.of_sublist (eraseMany_sublist xs _)
  | insert i v =>
    simp only [listMut] at h
    cases h
    exact SubP.of_perm (insertAt_perm xs i v)
  | append v => simp only [listMut] at h; cases h; exact SubP.refl _
  | extend vs => simp only [listMut] at h; cases h; exact SubP.refl _
  | remove v =>
    simp only [listMut] at h
    split at h
    · cases h
    · cases h
      simp only [ListMut.news, List.append_nil]
      exact SubP.of_sublist (List.eraseIdx_sublist xs _)
  | clear =>
    simp only [listMut] at h; cases h
    exact SubP.of_sublist (List.nil_sublist _)
  | pop i =>
    simp only [listMut] at h
    split at h
    · cases h
    · split at h
      · cases h
      · cases h
        simp only [ListMut.news, List.append_nil]
        exact SubP.of_sublist (List.eraseIdx_sublist xs _)
  | reverse =>
    simp only [listMut] at h; cases h
    simp only [ListMut.news, List.append_nil]
    exact SubP.of_perm (List.reverse_perm xs)

/-! ### every `dict` method -/

theorem setKey_subp (k : Key) (v : α) : ∀ (kvs : List (Key × α)), SubP (Tr.setKey k v kvs) (kvs ++ [(k, v)])
  | [] => SubP.refl _
  | (k', v') :: rest => by
    simp only [Tr.setKey]
    split
    · simp only [List.cons_append]
      exact ⟨rest ++ [(k, v)], (List.perm_append_singleton (k, v) rest).symm,
        List.Sublist.cons _ (List.Sublist.refl _)⟩
    · simp only [List.cons_append]
      exact SubP.cons _ (setKey_subp k v rest)

theorem delKey_sublist (k : Key) : ∀ (kvs : List (Key × α)), (Tr.delKey k kvs).Sublist kvs
  | [] => List.Sublist.refl _
  | (k', v') :: rest => by
    simp only [Tr.delKey]
    split
    · exact List.Sublist.cons _ (List.Sublist.refl _)
    · exact (delKey_sublist k rest).cons_cons _

theorem dictMut_subp {ι : Type} (kvs : List (Key × Tr ι)) (m : DictMut (Tr ι))
    (r : BodyRes (List (Key × Tr ι)) ι) (h : dictMut kvs m = .ok r) :
    SubP r.data (kvs ++ DictMut.news m) := by
  cases m with
  | setitem k v => simp only [dictMut] at h; cases h; exact setKey_subp k v kvs
  | delitem k =>
    simp only [dictMut] at h
    split at h
    · cases h
    · cases h
      simp only [DictMut.news, List.append_nil]
      exact SubP.of_sublist (delKey_sublist k kvs)
  | pop k d =>
    simp only [dictMut] at h
    split at h
    · cases h; simp only [DictMut.news, List.append_nil]; exact SubP.refl _
    · cases h
      simp only [DictMut.news, List.append_nil]
      exact SubP.of_sublist (delKey_sublist k kvs)
  | popitem =>
    simp only [dictMut] at h
    split at h
    · cases h
    · cases h
      simp only [DictMut.news, List.append_nil]
      exact SubP.of_sublist (List.dropLast_sublist kvs)
  | clear =>
    simp only [dictMut] at h; cases h
    exact SubP.of_sublist (List.nil_sublist _)

end SC
