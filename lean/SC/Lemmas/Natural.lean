/-
Naturality: every built-in dict / list operation commutes with relabelling the
identities of the elements (`Tr.map f`), in particular with `toBase`.  Hence the
plain content of a synced container after an operation is the built-in operation
applied to its plain content — for every operation, argument and size.
-/
import SC.Builtin
import SC.Tree
namespace SC
open Tr

variable {ι κ : Type} (f : ι → κ)

theorem mapL_eq_map (xs : List (Tr ι)) : Tr.mapL f xs = xs.map (Tr.map f) := by
  induction xs with
  | nil => rfl
  | cons x xs ih => simp [Tr.mapL, ih]

theorem mapKV_eq_map (kvs : List (Key × Tr ι)) :
    Tr.mapKV f kvs = kvs.map (fun kv => (kv.1, Tr.map f kv.2)) := by
  induction kvs with
  | nil => rfl
  | cons p kvs ih => obtain ⟨k, v⟩ := p; simp [Tr.mapKV, ih]

/-! ### `pyEq` and `cmp` ignore identities -/

mutual
theorem pyEq_map_left : ∀ (x : Tr ι) (v : J), Tr.pyEq (x.map f) v = Tr.pyEq x v
  | .leaf a, v => by cases v <;> simp [Tr.map, Tr.pyEq]
  | .list i xs, v => by
    cases v with
    | list j ys => simp only [Tr.map, Tr.pyEq]; exact pyEqL_map_left xs ys
    | leaf _ => simp [Tr.map, Tr.pyEq]
    | dict _ _ => simp [Tr.map, Tr.pyEq]
  | .dict i kvs, v => by
    cases v with
    | dict j kws =>
      simp only [Tr.map, Tr.pyEq, pyEqKV_map_left kvs kws]
      congr 1
      rw [mapKV_eq_map]; simp
    | leaf _ => simp [Tr.map, Tr.pyEq]
    | list _ _ => simp [Tr.map, Tr.pyEq]
theorem pyEqL_map_left : ∀ (xs : List (Tr ι)) (ys : List J),
    Tr.pyEqL (Tr.mapL f xs) ys = Tr.pyEqL xs ys
  | [], ys => by cases ys <;> simp [Tr.mapL, Tr.pyEqL]
  | x :: xs, ys => by
    cases ys with
    | nil => simp [Tr.mapL, Tr.pyEqL]
    | cons y ys => simp [Tr.mapL, Tr.pyEqL, pyEq_map_left x y, pyEqL_map_left xs ys]
theorem pyEqKV_map_left : ∀ (kvs : List (Key × Tr ι)) (kws : List (Key × J)),
    Tr.pyEqKV (Tr.mapKV f kvs) kws = Tr.pyEqKV kvs kws
  | [], kws => by simp [Tr.mapKV, Tr.pyEqKV]
  | (k, v) :: kvs, kws => by
    simp [Tr.mapKV, Tr.pyEqKV, pyEqIn_map_left k v kws, pyEqKV_map_left kvs kws]
theorem pyEqIn_map_left (k : Key) : ∀ (v : Tr ι) (kws : List (Key × J)),
    Tr.pyEqIn k (v.map f) kws = Tr.pyEqIn k v kws
  | v, [] => by simp [Tr.pyEqIn]
  | v, (k', w) :: kws => by
    simp only [Tr.pyEqIn]
    split
    · exact pyEq_map_left v w
    · exact pyEqIn_map_left k v kws
end

mutual
theorem cmp_map_left (c : Cmp) : ∀ (x : Tr ι) (v : J), Tr.cmp c (x.map f) v = Tr.cmp c x v
  | .leaf a, v => by cases v <;> simp [Tr.map, Tr.cmp]
  | .list i xs, v => by
    cases v with
    | list j ys => simp only [Tr.map, Tr.cmp]; exact cmpL_map_left c xs ys
    | leaf _ => simp [Tr.map, Tr.cmp]
    | dict _ _ => simp [Tr.map, Tr.cmp]
  | .dict i kvs, v => by cases v <;> simp [Tr.map, Tr.cmp]
theorem cmpL_map_left (c : Cmp) : ∀ (xs : List (Tr ι)) (ys : List J),
    Tr.cmpL c (Tr.mapL f xs) ys = Tr.cmpL c xs ys
  | [], ys => by cases ys <;> simp [Tr.mapL, Tr.cmpL]
  | x :: xs, ys => by
    cases ys with
    | nil => simp [Tr.mapL, Tr.cmpL]
    | cons y ys =>
      simp only [Tr.mapL, Tr.cmpL, pyEq_map_left f x y]
      split
      · exact cmpL_map_left c xs ys
      · exact cmp_map_left c x y
end

/-! ### association lists -/

theorem lookup_mapKV (k : Key) (kvs : List (Key × Tr ι)) :
    Tr.lookup k (Tr.mapKV f kvs) = (Tr.lookup k kvs).map (Tr.map f) := by
  induction kvs with
  | nil => rfl
  | cons p kvs ih =>
    obtain ⟨k', v⟩ := p
    simp only [Tr.mapKV, Tr.lookup]
    split <;> simp [ih]

theorem hasKey_mapKV (k : Key) (kvs : List (Key × Tr ι)) :
    Tr.hasKey k (Tr.mapKV f kvs) = Tr.hasKey k kvs := by
  simp [Tr.hasKey, lookup_mapKV]

theorem setKey_mapKV (k : Key) (v : Tr ι) (kvs : List (Key × Tr ι)) :
    Tr.setKey k (v.map f) (Tr.mapKV f kvs) = Tr.mapKV f (Tr.setKey k v kvs) := by
  induction kvs with
  | nil => rfl
  | cons p kvs ih =>
    obtain ⟨k', v'⟩ := p
    simp only [Tr.mapKV, Tr.setKey]
    split <;> simp [Tr.mapKV, ih]

theorem delKey_mapKV (k : Key) (kvs : List (Key × Tr ι)) :
    Tr.delKey k (Tr.mapKV f kvs) = Tr.mapKV f (Tr.delKey k kvs) := by
  induction kvs with
  | nil => rfl
  | cons p kvs ih =>
    obtain ⟨k', v'⟩ := p
    simp only [Tr.mapKV, Tr.delKey]
    split <;> simp [Tr.mapKV, ih]

theorem length_mapKV (kvs : List (Key × Tr ι)) : (Tr.mapKV f kvs).length = kvs.length := by
  simp [mapKV_eq_map]
theorem length_mapL (xs : List (Tr ι)) : (Tr.mapL f xs).length = xs.length := by
  simp [mapL_eq_map]

/-! ### the operations -/

namespace DictMut
def map : DictMut (Tr ι) → DictMut (Tr κ)
  | .setitem k v => .setitem k (v.map f)
  | .delitem k => .delitem k
  | .pop k d => .pop k d
  | .popitem => .popitem
  | .clear => .clear
end DictMut

namespace ListMut
def map : ListMut (Tr ι) → ListMut (Tr κ)
  | .setitem i v => .setitem i (v.map f)
  | .setslice s vs => .setslice s (Tr.mapL f vs)
  | .delitem ix => .delitem ix
  | .insert i v => .insert i (v.map f)
  | .append v => .append (v.map f)
  | .extend vs => .extend (Tr.mapL f vs)
  | .remove v => .remove v
  | .clear => .clear
  | .pop i => .pop i
  | .reverse => .reverse
end ListMut

def BodyRes.mapD (r : BodyRes (List (Key × Tr ι)) ι) : BodyRes (List (Key × Tr κ)) κ :=
  ⟨Tr.mapKV f r.data, r.out.map f, Tr.mapL f r.removed⟩
def BodyRes.mapLst (r : BodyRes (List (Tr ι)) ι) : BodyRes (List (Tr κ)) κ :=
  ⟨Tr.mapL f r.data, r.out.map f, Tr.mapL f r.removed⟩

private theorem mapL_toList (o : Option (Tr ι)) :
    Tr.mapL f o.toList = (o.map (Tr.map f)).toList := by
  cases o <;> simp [Tr.mapL]

theorem dictMut_natural (kvs : List (Key × Tr ι)) (m : DictMut (Tr ι)) :
    dictMut (Tr.mapKV f kvs) (m.map f) = (dictMut kvs m).map (BodyRes.mapD f) := by
  cases m with
  | setitem k v =>
    simp [dictMut, DictMut.map, Except.map, BodyRes.mapD, setKey_mapKV, lookup_mapKV, mapL_toList,
      Out.map]
  | delitem k =>
    simp only [dictMut, DictMut.map, lookup_mapKV]
    cases Tr.lookup k kvs <;>
      simp [Except.map, BodyRes.mapD, delKey_mapKV, Out.map, Tr.mapL]
  | pop k d =>
    simp only [dictMut, DictMut.map, lookup_mapKV]
    cases Tr.lookup k kvs <;>
      simp [Except.map, BodyRes.mapD, delKey_mapKV, Out.map, Tr.mapL]
  | popitem =>
    simp only [dictMut, DictMut.map, mapKV_eq_map, List.getLast?_map]
    cases h : kvs.getLast? with
    | none => simp [Except.map]
    | some p =>
      obtain ⟨k, v⟩ := p
      simp [Except.map, BodyRes.mapD, Out.map, Tr.mapL, mapKV_eq_map, List.map_dropLast]
  | clear =>
    simp [dictMut, DictMut.map, Except.map, BodyRes.mapD, Out.map, Tr.mapKV, mapL_eq_map,
      mapKV_eq_map, Function.comp_def]

theorem map_eraseIdx' {α β : Type} (g : α → β) (xs : List α) (i : Nat) :
    (xs.map g).eraseIdx i = (xs.eraseIdx i).map g := by
  induction xs generalizing i with
  | nil => simp
  | cons x xs ih => cases i <;> simp [List.eraseIdx, ih]

theorem findFrom_map (v : J) (xs : List (Tr ι)) (a b : Nat) :
    Py.findFrom (fun x => Tr.pyEq x v) (Tr.mapL f xs) a b =
      Py.findFrom (fun x => Tr.pyEq x v) xs a b := by
  simp only [Py.findFrom, mapL_eq_map, List.zipIdx_map, List.filter_map, List.find?_map]
  simp [Function.comp_def, pyEq_map_left]

theorem eraseMany_map (xs : List (Tr ι)) (is : List Nat) :
    Py.eraseMany (Tr.mapL f xs) is = Tr.mapL f (Py.eraseMany xs is) := by
  simp only [Py.eraseMany, mapL_eq_map, List.zipIdx_map, List.filter_map, List.map_map]
  simp [Function.comp_def]

theorem setMany_map (xs : List (Tr ι)) (is : List Nat) (vs : List (Tr ι)) :
    Py.setMany (Tr.mapL f xs) is (Tr.mapL f vs) = Tr.mapL f (Py.setMany xs is vs) := by
  induction is generalizing xs vs with
  | nil => simp [Py.setMany]
  | cons i is ih =>
    cases vs with
    | nil => simp [Py.setMany, Tr.mapL]
    | cons v vs =>
      simp only [Tr.mapL, Py.setMany]
      rw [← ih]
      congr 1
      simp [mapL_eq_map, List.map_set]

theorem filterMap_getElem_map (xs : List (Tr ι)) (is : List Nat) :
    is.filterMap ((Tr.mapL f xs)[·]?) = Tr.mapL f (is.filterMap (xs[·]?)) := by
  induction is with
  | nil => simp [Tr.mapL]
  | cons i is ih =>
    simp only [List.filterMap_cons, mapL_eq_map, List.getElem?_map] at *
    cases xs[i]? <;> simp [ih]

theorem insertAt_map (xs : List (Tr ι)) (i : Int) (v : Tr ι) :
    Py.insertAt (Tr.mapL f xs) i (v.map f) = Tr.mapL f (Py.insertAt xs i v) := by
  simp [Py.insertAt, mapL_eq_map, List.map_take, List.map_drop]

theorem listMut_natural (xs : List (Tr ι)) (m : ListMut (Tr ι)) :
    listMut (Tr.mapL f xs) (m.map f) = (listMut xs m).map (BodyRes.mapLst f) := by
  cases m with
  | setitem i v =>
    simp only [listMut, ListMut.map, length_mapL]
    cases Py.normIdx xs.length i with
    | none => simp [Except.map]
    | some j =>
      simp [Except.map, BodyRes.mapLst, Out.map, mapL_eq_map, List.map_set, List.getElem?_map]
      cases xs[j]? <;> simp
  | setslice s vs =>
    simp only [listMut, ListMut.map, length_mapL]
    cases Py.sliceIndices s xs.length with
    | none => simp [Except.map]
    | some p =>
      obtain ⟨start, stop, step⟩ := p
      simp only
      split
      · simp [Except.map, BodyRes.mapLst, Out.map, mapL_eq_map, List.map_take, List.map_drop]
      · split
        · simp [Except.map]
        · simp [Except.map, BodyRes.mapLst, Out.map, setMany_map, filterMap_getElem_map]
  | delitem ix =>
    cases ix with
    | i i =>
      simp only [listMut, ListMut.map, length_mapL]
      cases Py.normIdx xs.length i with
      | none => simp [Except.map]
      | some j =>
        simp [Except.map, BodyRes.mapLst, Out.map, Py.eraseAt, mapL_eq_map, List.getElem?_map,
          map_eraseIdx']
        cases xs[j]? <;> simp
    | sl s =>
      simp only [listMut, ListMut.map, length_mapL]
      cases Py.sliceIndices s xs.length with
      | none => simp [Except.map]
      | some p =>
        obtain ⟨start, stop, step⟩ := p
        simp [Except.map, BodyRes.mapLst, Out.map, eraseMany_map, filterMap_getElem_map]
  | insert i v =>
    simp [listMut, ListMut.map, Except.map, BodyRes.mapLst, Out.map, insertAt_map, Tr.mapL]
  | append v =>
    simp [listMut, ListMut.map, Except.map, BodyRes.mapLst, Out.map, mapL_eq_map]
  | extend vs =>
    simp [listMut, ListMut.map, Except.map, BodyRes.mapLst, Out.map, mapL_eq_map]
  | remove v =>
    simp only [listMut, ListMut.map, length_mapL, findFrom_map]
    cases Py.findFrom (fun x => Tr.pyEq x v) xs 0 xs.length with
    | none => simp [Except.map]
    | some j =>
      simp [Except.map, BodyRes.mapLst, Out.map, Py.eraseAt, mapL_eq_map, List.getElem?_map,
        map_eraseIdx']
      cases xs[j]? <;> simp
  | clear =>
    simp [listMut, ListMut.map, Except.map, BodyRes.mapLst, Out.map, Tr.mapL]
  | pop i =>
    simp only [listMut, ListMut.map, length_mapL]
    cases Py.normIdx xs.length i with
    | none => simp [Except.map]
    | some j =>
      simp only [mapL_eq_map, List.getElem?_map]
      cases xs[j]? <;>
        simp [Except.map, BodyRes.mapLst, Out.map, Py.eraseAt, mapL_eq_map, map_eraseIdx']
  | reverse =>
    simp [listMut, ListMut.map, Except.map, BodyRes.mapLst, Out.map, mapL_eq_map, Tr.mapL]


/-! ### reads -/

mutual
theorem map_map {μ : Type} (g : κ → μ) : ∀ t : Tr ι, (t.map f).map g = t.map (g ∘ f)
  | .leaf s => by simp [Tr.map]
  | .list i xs => by simp [Tr.map, mapL_mapL g xs]
  | .dict i kvs => by simp [Tr.map, mapKV_mapKV g kvs]
theorem mapL_mapL {μ : Type} (g : κ → μ) :
    ∀ xs : List (Tr ι), Tr.mapL g (Tr.mapL f xs) = Tr.mapL (g ∘ f) xs
  | [] => rfl
  | x :: xs => by simp [Tr.mapL, map_map g x, mapL_mapL g xs]
theorem mapKV_mapKV {μ : Type} (g : κ → μ) :
    ∀ kvs : List (Key × Tr ι), Tr.mapKV g (Tr.mapKV f kvs) = Tr.mapKV (g ∘ f) kvs
  | [] => rfl
  | (k, v) :: kvs => by simp [Tr.mapKV, map_map g v, mapKV_mapKV g kvs]
end

mutual
theorem map_unit_id : ∀ t : J, t.map (fun _ => ()) = t
  | .leaf s => by simp [Tr.map]
  | .list i xs => by simp [Tr.map, mapL_unit_id xs]
  | .dict i kvs => by simp [Tr.map, mapKV_unit_id kvs]
theorem mapL_unit_id : ∀ xs : List J, Tr.mapL (fun _ => ()) xs = xs
  | [] => rfl
  | x :: xs => by simp [Tr.mapL, map_unit_id x, mapL_unit_id xs]
theorem mapKV_unit_id : ∀ kvs : List (Key × J), Tr.mapKV (fun _ => ()) kvs = kvs
  | [] => rfl
  | (k, v) :: kvs => by simp [Tr.mapKV, map_unit_id v, mapKV_unit_id kvs]
end

theorem toBase_J (t : J) : t.toBase = t := map_unit_id t

theorem toBase_map (t : Tr ι) : (t.map f).toBase = t.toBase := by
  simp only [Tr.toBase, map_map]

theorem dictRead_natural (i : ι) (kvs : List (Key × Tr ι)) (r : DictRead) :
    dictRead (f i) (Tr.mapKV f kvs) r = (dictRead i kvs r).map (Out.map f) := by
  have hb : (Tr.dict (f i) (Tr.mapKV f kvs)).toBase = (Tr.dict i kvs).toBase := by
    have := toBase_map f (Tr.dict i kvs); simpa [Tr.map] using this
  have hpe : ∀ v : J, Tr.pyEq (Tr.dict (f i) (Tr.mapKV f kvs)) v = Tr.pyEq (Tr.dict i kvs) v := by
    intro v; have := pyEq_map_left f (Tr.dict i kvs) v; simpa [Tr.map] using this
  cases r with
  | getitem k =>
    simp only [dictRead, lookup_mapKV]
    cases Tr.lookup k kvs <;> simp [Except.map, Out.map]
  | contains k => simp [dictRead, hasKey_mapKV, Except.map, Out.map]
  | len => simp [dictRead, length_mapKV, Except.map, Out.map]
  | iter => simp [dictRead, mapKV_eq_map, Except.map, Out.map, Function.comp_def]
  | keys => simp [dictRead, mapKV_eq_map, Except.map, Out.map, Function.comp_def]
  | call => simp [dictRead, hb, Except.map, Out.map]
  | repr => simp [dictRead, hb, Except.map, Out.map]
  | values =>
    simp [dictRead, mapKV_eq_map, Except.map, Out.map, Function.comp_def, toBase_map]
  | items =>
    simp [dictRead, mapKV_eq_map, Except.map, Out.map, Function.comp_def, toBase_map]
  | eq v => simp [dictRead, hpe, Except.map, Out.map]
  | ne v => simp [dictRead, hpe, Except.map, Out.map]
  | get k d =>
    simp only [dictRead, lookup_mapKV]
    cases Tr.lookup k kvs <;> simp [Except.map, Out.map]

theorem listRead_natural (i : ι) (xs : List (Tr ι)) (r : ListRead) :
    listRead (f i) (Tr.mapL f xs) r = (listRead i xs r).map (Out.map f) := by
  have hb : (Tr.list (f i) (Tr.mapL f xs)).toBase = (Tr.list i xs).toBase := by
    have := toBase_map f (Tr.list i xs); simpa [Tr.map] using this
  have hpe : ∀ v : J, Tr.pyEq (Tr.list (f i) (Tr.mapL f xs)) v = Tr.pyEq (Tr.list i xs) v := by
    intro v; have := pyEq_map_left f (Tr.list i xs) v; simpa [Tr.map] using this
  cases r with
  | getitem ix =>
    cases ix with
    | i j =>
      simp only [listRead, length_mapL]
      cases Py.normIdx xs.length j with
      | none => simp [Except.map]
      | some j =>
        simp only [mapL_eq_map, List.getElem?_map]
        cases xs[j]? <;> simp [Except.map, Out.map]
    | sl s =>
      simp only [listRead, length_mapL]
      cases Py.sliceIndices s xs.length with
      | none => simp [Except.map]
      | some p =>
        obtain ⟨a, b, c⟩ := p
        simp [Except.map, Out.map, filterMap_getElem_map]
  | contains v =>
    simp [listRead, mapL_eq_map, Except.map, Out.map, List.any_map, Function.comp_def,
      pyEq_map_left]
  | len => simp [listRead, length_mapL, Except.map, Out.map]
  | iter => simp [listRead, Except.map, Out.map]
  | reversed => simp [listRead, Except.map, Out.map, mapL_eq_map]
  | call => simp [listRead, hb, Except.map, Out.map]
  | repr => simp [listRead, hb, Except.map, Out.map]
  | index v a b =>
    simp only [listRead, length_mapL, findFrom_map]
    split <;> simp [Except.map, Out.map]
  | count v =>
    simp [listRead, mapL_eq_map, Except.map, Out.map, List.filter_map, Function.comp_def,
      pyEq_map_left]
  | eq v => simp [listRead, hpe, Except.map, Out.map]
  | ne v => simp [listRead, hpe, Except.map, Out.map]
  | cmp c v =>
    have hc : Tr.cmp c (Tr.list (f i) (Tr.mapL f xs)) v = Tr.cmp c (Tr.list i xs) v := by
      have := cmp_map_left f c (Tr.list i xs) v; simpa [Tr.map] using this
    simp only [listRead, hc]
    split <;> simp [Except.map, Out.map]

end SC
