/-
C02 — a child handle stays attached across reloads.
(1) Merging VALID data never raises, except for a kind mismatch at the very root of the merge.
(2) Hence along any path on which memory and data hold containers of the same kind, the merge
    goes through the nested `_update` calls in place: the node at the path keeps its identity.
-/
import SC.Lemmas.Merge
import SC.Lemmas.Valid
namespace SC
open Tr

variable {ι : Type}

/-- data every part of which passes the family's validators (both the dict-side and the
list-side ones: nested positions are validated by the container they land in) -/
def Valid (fam : Fam) (d : Tr ι) : Prop :=
  all (keyReq fam.dictV) (leafReq fam.dictV) d = true ∧ all (keyReq fam.listV) (leafReq fam.listV) d = true

def ValidL (fam : Fam) (ds : List (Tr ι)) : Prop :=
  allL (keyReq fam.dictV) (leafReq fam.dictV) ds = true ∧ allL (keyReq fam.listV) (leafReq fam.listV) ds = true

def ValidKV (fam : Fam) (kvs : List (Key × Tr ι)) : Prop :=
  allKV (keyReq fam.dictV) (leafReq fam.dictV) kvs = true ∧ allKV (keyReq fam.listV) (leafReq fam.listV) kvs = true

theorem Valid.list {fam : Fam} {i : ι} {xs : List (Tr ι)} (h : Valid fam (.list i xs)) : ValidL fam xs := by
  simpa [Valid, ValidL, all] using h
theorem Valid.dict {fam : Fam} {i : ι} {kvs : List (Key × Tr ι)} (h : Valid fam (.dict i kvs)) : ValidKV fam kvs := by
  simpa [Valid, ValidKV, all] using h

theorem ValidL.cons {fam : Fam} {x : Tr ι} {xs : List (Tr ι)} (h : ValidL fam (x :: xs)) :
    Valid fam x ∧ ValidL fam xs := by
  simp only [ValidL, allL, Bool.and_eq_true] at h
  exact ⟨⟨h.1.1, h.2.1⟩, ⟨h.1.2, h.2.2⟩⟩

theorem ValidKV.cons {fam : Fam} {k : Key} {v : Tr ι} {kvs : List (Key × Tr ι)} (h : ValidKV fam ((k, v) :: kvs)) :
    validateKV fam.dictV [(k, v)] = none ∧ Valid fam v ∧ ValidKV fam kvs := by
  simp only [ValidKV, allKV, Bool.and_eq_true] at h
  refine ⟨?_, ⟨h.1.1.2, h.2.1.2⟩, ⟨h.1.2, h.2.2⟩⟩
  rw [validateKV_none]
  simp [allKV, h.1.1.1, h.1.1.2]

theorem Valid.validate_list {fam : Fam} {d : Tr ι} (h : Valid fam d) : validate fam.listV d = none := by
  rw [validate_none]; exact h.2

theorem ValidL.validateL {fam : Fam} {ds : List (Tr ι)} (h : ValidL fam ds) : validateL fam.listV ds = none := by
  rw [validateL_none]; exact h.2

/-- the step of the loops never raises on valid data, provided the nested merge raises nothing
but `ValueError` -/
theorem elemStep_noerr {existing : T} {new : Tr ι} {nested : UpdRes T} {verr : Option Err} {n : Nat}
    (hv : verr = none) (hn : nested.err = none ∨ nested.err = some .valueError) :
    (elemStep existing new nested verr n).err = none := by
  subst hv
  unfold elemStep
  cases existing with
  | leaf s =>
    cases new with
    | leaf s' => simp only; split <;> rfl
    | list _ _ => rfl
    | dict _ _ => rfl
  | list i xs =>
    simp only
    split
    · rfl
    · rcases hn with h | h
      · simp [h]
      · simp [h, Err.isValueError]
  | dict i kvs =>
    simp only
    split
    · rfl
    · rcases hn with h | h
      · simp [h]
      · simp [h, Err.isValueError]

mutual
/-- (1) merging valid data raises at most the `ValueError` of a kind mismatch at the root -/
theorem updNode_valid (fam : Fam) : ∀ (d : Tr ι) (t : T) (n : Nat), Valid fam d →
    (updNode fam t d n).err = none ∨ (updNode fam t d n).err = some .valueError
  | .leaf s, t, n, _ => by
    cases s <;> cases t <;> simp [updNode]
  | .list j dxs, t, n, hv => by
    cases t with
    | leaf s => simp [updNode]
    | dict i kvs => simp [updNode]
    | list i xs =>
      simp only [updNode]
      exact Or.inl (updListLoop_valid fam dxs xs n hv.list)
  | .dict j dkvs, t, n, hv => by
    cases t with
    | leaf s => simp [updNode]
    | list i xs => simp [updNode]
    | dict i kvs =>
      simp only [updNode]
      have := updDictLoop_valid fam dkvs kvs n hv.dict
      simp [this]
theorem updDictLoop_valid (fam : Fam) : ∀ (data : List (Key × Tr ι)) (cur : List (Key × T)) (n : Nat),
    ValidKV fam data → (updDictLoop fam cur data n).err = none
  | [], cur, n, _ => by simp [updDictLoop]
  | (k, v) :: rest, cur, n, hv => by
    obtain ⟨hkv, hvv, hrest⟩ := hv.cons
    simp only [updDictLoop]
    cases hlook : Tr.lookup k cur with
    | none =>
      simp only [hkv]
      exact updDictLoop_valid fam rest _ _ hrest
    | some existing =>
      simp only
      have hs := elemStep_noerr (existing := existing) (new := v) (n := n) hkv (updNode_valid fam v existing n hvv)
      simp only [hs]
      exact updDictLoop_valid fam rest _ _ hrest
theorem updListLoop_valid (fam : Fam) : ∀ (data : List (Tr ι)) (cur : List T) (n : Nat),
    ValidL fam data → (updListLoop fam cur data n).err = none
  | [], [], n, _ => by simp [updListLoop]
  | [], c :: cs, n, _ => by simp [updListLoop]
  | d :: ds, [], n, hv => by
    simp only [updListLoop, hv.validateL]
  | d :: ds, c :: cs, n, hv => by
    obtain ⟨hd, hds⟩ := hv.cons
    simp only [updListLoop]
    have hs := elemStep_noerr (existing := c) (new := d) (n := n) hd.validate_list (updNode_valid fam d c n hd)
    simp only [hs]
    exact updListLoop_valid fam ds cs _ hds
end


/-! ### paths -/

inductive Seg where
  | key (k : Key)
  | idx (j : Nat)
deriving Repr, DecidableEq

/-- the node at a path -/
def Tr.sub : List Seg → Tr ι → Option (Tr ι)
  | [], t => some t
  | .key k :: p, .dict _ kvs => (Tr.lookup k kvs).bind (Tr.sub p)
  | .idx j :: p, .list _ xs => (xs[j]?).bind (Tr.sub p)
  | _ :: _, _ => none

def sameKind {κ : Type} : T → Tr κ → Bool
  | .dict _ _, .dict _ _ => true
  | .list _ _, .list _ _ => true
  | _, _ => false

/-- along the whole path, memory and data hold containers of the same kind -/
def kindsMatch {κ : Type} : List Seg → T → Tr κ → Bool
  | [], t, d => sameKind t d
  | .key k :: p, .dict _ kvs, .dict _ dkvs =>
    match Tr.lookup k kvs, Tr.lookup k dkvs with
    | some c, some dc => kindsMatch p c dc
    | _, _ => false
  | .idx j :: p, .list _ xs, .list _ dxs =>
    match xs[j]?, dxs[j]? with
    | some c, some dc => kindsMatch p c dc
    | _, _ => false
  | _ :: _, _, _ => false

theorem kindsMatch_sameKind {κ : Type} : ∀ (p : List Seg) (t : T) (d : Tr κ), kindsMatch p t d = true → sameKind t d = true
  | [], t, d, h => h
  | .key k :: p, t, d, h => by
    cases t <;> cases d <;> simp_all [kindsMatch, sameKind]
  | .idx j :: p, t, d, h => by
    cases t <;> cases d <;> simp_all [kindsMatch, sameKind]

theorem updNode_sameKind_noerr (fam : Fam) (d : Tr ι) (t : T) (n : Nat) (hv : Valid fam d)
    (hk : sameKind t d = true) : (updNode fam t d n).err = none := by
  cases t with
  | leaf s => cases d <;> simp [sameKind] at hk
  | list i xs =>
    cases d with
    | list j dxs => simp only [updNode]; exact updListLoop_valid fam dxs xs n hv.list
    | leaf s => simp [sameKind] at hk
    | dict _ _ => simp [sameKind] at hk
  | dict i kvs =>
    cases d with
    | dict j dkvs =>
      simp only [updNode]
      have := updDictLoop_valid fam dkvs kvs n hv.dict
      simp [this]
    | leaf s => simp [sameKind] at hk
    | list _ _ => simp [sameKind] at hk

/-- on a container of the same kind, the step IS the nested merge -/
theorem elemStep_sameKind (fam : Fam) (c : T) (dc : Tr ι) (verr : Option Err) (n : Nat) (hv : Valid fam dc)
    (hk : sameKind c dc = true) :
    elemStep c dc (updNode fam c dc n) verr n = updNode fam c dc n := by
  have herr := updNode_sameKind_noerr fam dc c n hv hk
  unfold elemStep
  cases c with
  | leaf s => cases dc <;> simp [sameKind] at hk
  | list i xs =>
    cases dc with
    | list j dxs => simp only [herr]
    | leaf s => simp [sameKind] at hk
    | dict _ _ => simp [sameKind] at hk
  | dict i kvs =>
    cases dc with
    | dict j dkvs => simp only [herr]
    | leaf s => simp [sameKind] at hk
    | list _ _ => simp [sameKind] at hk

theorem ValidKV.lookup {fam : Fam} : ∀ {kvs : List (Key × Tr ι)} {k : Key} {v : Tr ι},
    ValidKV fam kvs → Tr.lookup k kvs = some v → Valid fam v
  | [], k, v, _, h => by simp [Tr.lookup] at h
  | (k', v') :: kvs, k, v, hv, h => by
    obtain ⟨_, hv', hrest⟩ := hv.cons
    simp only [Tr.lookup] at h
    by_cases hk : k' = k
    · simp only [hk, if_true, Option.some.injEq] at h; subst h; exact hv'
    · simp only [hk, if_false] at h; exact hrest.lookup h

theorem ValidL.get {fam : Fam} : ∀ {ds : List (Tr ι)} {j : Nat} {v : Tr ι},
    ValidL fam ds → ds[j]? = some v → Valid fam v
  | [], j, v, _, h => by simp at h
  | d :: ds, 0, v, hv, h => by
    simp only [List.getElem?_cons_zero, Option.some.injEq] at h; subst h; exact hv.cons.1
  | d :: ds, j + 1, v, hv, h => by
    simp only [List.getElem?_cons_succ] at h; exact hv.cons.2.get h

/-- the dict loop at key `k`: what ends up there is the step on what was there -/
theorem updDictLoop_at (fam : Fam) (k : Key) : ∀ (data : List (Key × Tr ι)) (cur : List (Key × T)) (n : Nat)
    (c : T) (dc : Tr ι),
    Tr.wfKV data = true → Tr.wfKV cur = true → ValidKV fam data →
    Tr.lookup k cur = some c → Tr.lookup k data = some dc →
    ∃ n', Tr.lookup k (updDictLoop fam cur data n).val =
      some (elemStep c dc (updNode fam c dc n') (validateKV fam.dictV [(k, dc)]) n').val
  | [], cur, n, c, dc, _, _, _, _, hd => by simp [Tr.lookup] at hd
  | (k0, v0) :: rest, cur, n, c, dc, hwd, hwc, hv, hc, hd => by
    have herr := updDictLoop_valid fam ((k0, v0) :: rest) cur n hv
    have hpost := updDictLoop_post fam ((k0, v0) :: rest) cur n hwd hwc herr
    obtain ⟨hkv, hvv, hrest⟩ := hv.cons
    simp only [Tr.wfKV, Bool.and_eq_true, Bool.not_eq_true'] at hwd
    obtain ⟨⟨hknot, hvw⟩, hrw⟩ := hwd
    simp only [Tr.lookup] at hd
    by_cases hk : k0 = k
    · subst hk
      simp only [if_true, Option.some.injEq] at hd
      subst hd
      refine ⟨n, ?_⟩
      simp only [updDictLoop, hc]
      have hs := elemStep_noerr (existing := c) (new := v0) (n := n) hkv (updNode_valid fam v0 c n hvv)
      simp only [hs]
      -- the rest of the data does not mention k0
      have hstep := elemStep_post (n := n) (verr := validateKV fam.dictV [(k0, v0)]) hvw (wf_of_lookup hwc hc)
        (fun hne _ hnn => updNode_post fam v0 c n hvw (wf_of_lookup hwc hc) hnn hne) hs
      have hc' := wfKV_setKey cur k0 _ hwc hstep.2
      have herr' := updDictLoop_valid fam rest (Tr.setKey k0
        (elemStep c v0 (updNode fam c v0 n) (validateKV fam.dictV [(k0, v0)]) n).val cur)
        (elemStep c v0 (updNode fam c v0 n) (validateKV fam.dictV [(k0, v0)]) n).next hrest
      have hp := updDictLoop_post fam rest _ _ hrw hc' herr'
      rw [hp.2.1 k0 hknot, lookup_setKey_same]
    · simp only [hk, if_false] at hd
      simp only [updDictLoop]
      cases hlook : Tr.lookup k0 cur with
      | none =>
        simp only [hkv]
        have hkc : Tr.hasKey k0 cur = false := by simp [Tr.hasKey, hlook]
        have hc' := wfKV_append cur k0 (fromBase v0 n).1 hwc hkc (wf_fromBase v0 n hvw)
        have hc2 : Tr.lookup k (cur ++ [(k0, (fromBase v0 n).1)]) = some c := by
          rw [lookup_append, hc]
        exact updDictLoop_at fam k rest _ _ c dc hrw hc' hrest hc2 hd
      | some existing =>
        simp only
        have hs := elemStep_noerr (existing := existing) (new := v0) (n := n) hkv (updNode_valid fam v0 existing n hvv)
        simp only [hs]
        have hstep := elemStep_post (n := n) (verr := validateKV fam.dictV [(k0, v0)]) hvw (wf_of_lookup hwc hlook)
          (fun hne _ hnn => updNode_post fam v0 existing n hvw (wf_of_lookup hwc hlook) hnn hne) hs
        have hc' := wfKV_setKey cur k0 _ hwc hstep.2
        have hc2 : Tr.lookup k (Tr.setKey k0
            (elemStep existing v0 (updNode fam existing v0 n) (validateKV fam.dictV [(k0, v0)]) n).val cur) = some c := by
          rw [lookup_setKey_other k0 k _ cur (fun e => hk e.symm), hc]
        exact updDictLoop_at fam k rest _ _ c dc hrw hc' hrest hc2 hd


/-- the list loop at position `j` -/
theorem updListLoop_at (fam : Fam) : ∀ (j : Nat) (data : List (Tr ι)) (cur : List T) (n : Nat) (c : T) (dc : Tr ι),
    ValidL fam data → cur[j]? = some c → data[j]? = some dc →
    ∃ n', (updListLoop fam cur data n).val[j]? =
      some (elemStep c dc (updNode fam c dc n') (validate fam.listV dc) n').val
  | j, [], cur, n, c, dc, _, _, hd => by simp at hd
  | j, d :: ds, [], n, c, dc, _, hc, _ => by simp at hc
  | 0, d :: ds, c0 :: cs, n, c, dc, hv, hc, hd => by
    simp only [List.getElem?_cons_zero, Option.some.injEq] at hc hd
    subst hc; subst hd
    obtain ⟨hdv, _⟩ := hv.cons
    refine ⟨n, ?_⟩
    simp only [updListLoop]
    have hs := elemStep_noerr (existing := c0) (new := d) (n := n) hdv.validate_list (updNode_valid fam d c0 n hdv)
    simp only [hs, List.getElem?_cons_zero]
  | j + 1, d :: ds, c0 :: cs, n, c, dc, hv, hc, hd => by
    simp only [List.getElem?_cons_succ] at hc hd
    obtain ⟨hdv, hds⟩ := hv.cons
    simp only [updListLoop]
    have hs := elemStep_noerr (existing := c0) (new := d) (n := n) hdv.validate_list (updNode_valid fam d c0 n hdv)
    simp only [hs, List.getElem?_cons_succ]
    exact updListLoop_at fam j ds cs _ c dc hds hc hd

theorem wfL_get : ∀ {xs : List (Tr ι)} {j : Nat} {x : Tr ι}, Tr.wfL xs = true → xs[j]? = some x → x.wf = true
  | [], j, x, _, h => by simp at h
  | y :: ys, 0, x, hw, h => by
    simp only [Tr.wfL, Bool.and_eq_true] at hw
    simp only [List.getElem?_cons_zero, Option.some.injEq] at h; subst h; exact hw.1
  | y :: ys, j + 1, x, hw, h => by
    simp only [Tr.wfL, Bool.and_eq_true] at hw
    simp only [List.getElem?_cons_succ] at h; exact wfL_get hw.2 h

theorem wf_of_lookupJ : ∀ {kvs : List (Key × Tr ι)} {k : Key} {v : Tr ι}, Tr.wfKV kvs = true →
    Tr.lookup k kvs = some v → v.wf = true
  | [], k, v, _, h => by simp [Tr.lookup] at h
  | (k', v') :: kvs, k, v, hw, h => by
    simp only [Tr.wfKV, Bool.and_eq_true] at hw
    simp only [Tr.lookup] at h
    by_cases hk : k' = k
    · simp only [hk, if_true, Option.some.injEq] at h; subst h; exact hw.1.2
    · simp only [hk, if_false] at h; exact wf_of_lookupJ hw.2 h

/-- (2) ATTACHMENT.  Memory `t`, valid data `d` (both without duplicate keys), a path along which
both hold containers of the same kind.  Then the merge `t._update(d)` does not raise and the node
that was at the path is still there — same identity — for every such path, at every depth. -/
theorem attach (fam : Fam) : ∀ (p : List Seg) (t : T) (d : Tr ι) (n : Nat),
    Valid fam d → d.wf = true → t.wf = true → kindsMatch p t d = true →
    (updNode fam t d n).err = none ∧
    ∃ c c', Tr.sub p t = some c ∧ Tr.sub p (updNode fam t d n).val = some c' ∧
      c'.id? = c.id? ∧ c.id?.isSome = true
  | [], t, d, n, hv, _, _, hk => by
    have hk' : sameKind t d = true := hk
    refine ⟨updNode_sameKind_noerr fam d t n hv hk', t, (updNode fam t d n).val, rfl, rfl, ?_, ?_⟩
    · cases t with
      | leaf s => cases d <;> simp [sameKind] at hk'
      | list i xs =>
        cases d with
        | list j dxs => simp [updNode, Tr.id?]
        | leaf s => simp [sameKind] at hk'
        | dict _ _ => simp [sameKind] at hk'
      | dict i kvs =>
        cases d with
        | dict j dkvs => simp only [updNode]; split <;> rfl
        | leaf s => simp [sameKind] at hk'
        | list _ _ => simp [sameKind] at hk'
    · cases t with
      | leaf s => cases d <;> simp [sameKind] at hk'
      | list i xs => rfl
      | dict i kvs => rfl
  | .key k :: p, t, d, n, hv, hwd, hwt, hk => by
    have hsk := kindsMatch_sameKind _ t d hk
    refine ⟨updNode_sameKind_noerr fam d t n hv hsk, ?_⟩
    cases t with
    | leaf s => simp [kindsMatch] at hk
    | list i xs => cases d <;> simp [kindsMatch] at hk
    | dict i kvs =>
      cases d with
      | leaf s => simp [kindsMatch] at hk
      | list _ _ => simp [kindsMatch] at hk
      | dict j dkvs =>
        simp only [kindsMatch] at hk
        cases hc : Tr.lookup k kvs with
        | none => simp [hc] at hk
        | some c =>
          cases hdc : Tr.lookup k dkvs with
          | none => simp [hc, hdc] at hk
          | some dc =>
            simp only [hc, hdc] at hk
            have hwkv : Tr.wfKV kvs = true := by simpa [Tr.wf] using hwt
            have hwdkv : Tr.wfKV dkvs = true := by simpa [Tr.wf] using hwd
            have hvdc : Valid fam dc := hv.dict.lookup hdc
            obtain ⟨n', hat⟩ := updDictLoop_at fam k dkvs kvs n c dc hwdkv hwkv hv.dict hc hdc
            rw [elemStep_sameKind fam c dc _ n' hvdc (kindsMatch_sameKind p c dc hk)] at hat
            obtain ⟨_, c1, c2, h1, h2, h3, h4⟩ :=
              attach fam p c dc n' hvdc (wf_of_lookupJ hwdkv hdc) (wf_of_lookup hwkv hc) hk
            refine ⟨c1, c2, ?_, ?_, h3, h4⟩
            · simp only [Tr.sub, hc, Option.bind_some]; exact h1
            · simp only [updNode]
              have herr := updDictLoop_valid fam dkvs kvs n hv.dict
              simp only [herr]
              have hhas : Tr.hasKey k dkvs = true := by simp [Tr.hasKey, hdc]
              simp only [Tr.sub, lookup_filter_hasKey k _ dkvs hhas, hat, Option.bind_some]
              exact h2
  | .idx j :: p, t, d, n, hv, hwd, hwt, hk => by
    have hsk := kindsMatch_sameKind _ t d hk
    refine ⟨updNode_sameKind_noerr fam d t n hv hsk, ?_⟩
    cases t with
    | leaf s => simp [kindsMatch] at hk
    | dict i kvs => cases d <;> simp [kindsMatch] at hk
    | list i xs =>
      cases d with
      | leaf s => simp [kindsMatch] at hk
      | dict _ _ => simp [kindsMatch] at hk
      | list j' dxs =>
        simp only [kindsMatch] at hk
        cases hc : xs[j]? with
        | none => simp [hc] at hk
        | some c =>
          cases hdc : dxs[j]? with
          | none => simp [hc, hdc] at hk
          | some dc =>
            simp only [hc, hdc] at hk
            have hwxs : Tr.wfL xs = true := by simpa [Tr.wf] using hwt
            have hwdxs : Tr.wfL dxs = true := by simpa [Tr.wf] using hwd
            have hvdc : Valid fam dc := hv.list.get hdc
            obtain ⟨n', hat⟩ := updListLoop_at fam j dxs xs n c dc hv.list hc hdc
            rw [elemStep_sameKind fam c dc _ n' hvdc (kindsMatch_sameKind p c dc hk)] at hat
            obtain ⟨_, c1, c2, h1, h2, h3, h4⟩ :=
              attach fam p c dc n' hvdc (wfL_get hwdxs hdc) (wfL_get hwxs hc) hk
            refine ⟨c1, c2, ?_, ?_, h3, h4⟩
            · simp only [Tr.sub, hc, Option.bind_some]; exact h1
            · simp only [updNode, Tr.sub, hat, Option.bind_some]
              exact h2


/-- the merged content at a path is the data at that path -/
theorem eqv_sub : ∀ (p : List Seg) (t : T) (d : Tr ι) (c : T), Eqv t d → Tr.sub p t = some c →
    ∃ dc, Tr.sub p d = some dc ∧ Eqv c dc
  | [], t, d, c, he, hs => by
    simp only [Tr.sub, Option.some.injEq] at hs; subst hs; exact ⟨d, rfl, he⟩
  | .key k :: p, t, d, c, he, hs => by
    cases t with
    | leaf s => simp [Tr.sub] at hs
    | list i xs => simp [Tr.sub] at hs
    | dict i kvs =>
      cases d with
      | leaf s => simp [Eqv] at he
      | list _ _ => simp [Eqv] at he
      | dict j kws =>
        simp only [Eqv] at he
        simp only [Tr.sub] at hs ⊢
        cases hl : Tr.lookup k kvs with
        | none => simp [hl] at hs
        | some x =>
          simp only [hl, Option.bind_some] at hs
          have hmem : (k, x) ∈ kvs := by
            clear hs he
            induction kvs with
            | nil => simp [Tr.lookup] at hl
            | cons q qs ih =>
              obtain ⟨k', v'⟩ := q
              simp only [Tr.lookup] at hl
              by_cases hk : k' = k
              · simp only [hk, if_true, Option.some.injEq] at hl; subst hl; subst hk; exact List.mem_cons_self ..
              · simp only [hk, if_false] at hl; exact List.mem_cons_of_mem _ (ih hl)
          obtain ⟨w, hw, hxw⟩ := (EqvKV_iff kvs kws).mp he.1 (k, x) hmem
          obtain ⟨dc, hdc, hcc⟩ := eqv_sub p x w c hxw hs
          exact ⟨dc, by simp only [hw, Option.bind_some]; exact hdc, hcc⟩
  | .idx j :: p, t, d, c, he, hs => by
    cases t with
    | leaf s => simp [Tr.sub] at hs
    | dict i kvs => simp [Tr.sub] at hs
    | list i xs =>
      cases d with
      | leaf s => simp [Eqv] at he
      | dict _ _ => simp [Eqv] at he
      | list j' ys =>
        simp only [Eqv] at he
        simp only [Tr.sub] at hs ⊢
        have hget : ∀ (xs : List T) (ys : List (Tr ι)) (j : Nat) (x : T), EqvL xs ys → xs[j]? = some x →
            ∃ y, ys[j]? = some y ∧ Eqv x y := by
          intro xs
          induction xs with
          | nil => intro ys j x _ h; simp at h
          | cons a as ih =>
            intro ys j x he h
            cases ys with
            | nil => simp [EqvL] at he
            | cons b bs =>
              simp only [EqvL] at he
              cases j with
              | zero => simp only [List.getElem?_cons_zero, Option.some.injEq] at h; subst h; exact ⟨b, rfl, he.1⟩
              | succ j => simp only [List.getElem?_cons_succ] at h ⊢; exact ih bs j x he.2 h
        cases hl : xs[j]? with
        | none => simp [hl] at hs
        | some x =>
          simp only [hl, Option.bind_some] at hs
          obtain ⟨y, hy, hxy⟩ := hget xs ys j x he hl
          obtain ⟨dc, hdc, hcc⟩ := eqv_sub p x y c hxy hs
          exact ⟨dc, by simp only [hy, Option.bind_some]; exact hdc, hcc⟩

end SC
