/-
C17 (buffered) — read-only histories never touch the disk.
An entry is *clean* when the buffered copy is what was read (serialized: contents = hash;
shared memory: not modified).  If all entries are clean, every step that is not a mutating
call or an outside write keeps them clean and leaves every file's content, metadata and the
stamp counter exactly as they were.
-/
import SC.Lemmas.BufSize
namespace SC.B
open SC

def CleanE (st : Buffering) (e : Entry) : Prop :=
  match st with
  | .serialized => Tr.same e.contents e.hash = true
  | .sharedMemory => e.modified = false
  | .none => True

def AllClean (s : State) : Prop := ∀ p ∈ s.entries, CleanE s.strategy p.2

def DiskSame (s s' : State) : Prop := s'.stores = s.stores ∧ s'.metas = s.metas ∧ s'.stamp = s.stamp

/-- `s'` is reached from `s` by a step that cannot dirty anything: static parameters equal, and
if everything was clean it still is and the disk is untouched -/
def RO (s s' : State) : Prop :=
  s'.strategy = s.strategy ∧ (AllClean s → AllClean s' ∧ DiskSame s s')

theorem RO.refl (s : State) : RO s s := ⟨rfl, fun h => ⟨h, rfl, rfl, rfl⟩⟩
theorem RO.trans {a b c : State} (h1 : RO a b) (h2 : RO b c) : RO a c :=
  ⟨h2.1.trans h1.1, fun h =>
    let ⟨hb, d1⟩ := h1.2 h
    let ⟨hc, d2⟩ := h2.2 hb
    ⟨hc, d2.1.trans d1.1, d2.2.1.trans d1.2.1, d2.2.2.trans d1.2.2⟩⟩

/-- steps that change neither entries, strategy nor disk -/
theorem RO.of_same {s s' : State} (he : s'.entries = s.entries) (hs : s'.strategy = s.strategy)
    (h1 : s'.stores = s.stores) (h2 : s'.metas = s.metas) (h3 : s'.stamp = s.stamp) : RO s s' :=
  ⟨hs, fun h => ⟨by unfold AllClean; rw [he, hs]; exact h, h1, h2, h3⟩⟩

theorem RO.of_core {s s' : State} (h : s'.core = s.core) : RO s s' := by
  have := core_eq h
  exact RO.of_same this.2.2.2.1 this.2.2.2.2.2.2.2.2.2.1 this.1 this.2.1 this.2.2.1

mutual
theorem same_refl {ι : Type} : ∀ t : Tr ι, Tr.same t t = true
  | .leaf s => by simp [Tr.same]
  | .list i xs => by simp [Tr.same, sameL_refl xs]
  | .dict i kvs => by simp [Tr.same, sameKV_refl kvs]
theorem sameL_refl {ι : Type} : ∀ xs : List (Tr ι), Tr.sameL xs xs = true
  | [] => by simp [Tr.sameL]
  | x :: xs => by simp [Tr.sameL, same_refl x, sameL_refl xs]
theorem sameKV_refl {ι : Type} : ∀ kvs : List (Key × Tr ι), Tr.sameKV kvs kvs = true
  | [] => by simp [Tr.sameKV]
  | (k, v) :: kvs => by simp [Tr.sameKV, same_refl v, sameKV_refl kvs]
end


/-- a state whose entries are among the old ones, same strategy, same disk -/
theorem ro_sub {s X : State} (hsub : ∀ p ∈ X.entries, p ∈ s.entries) (hs : X.strategy = s.strategy)
    (h1 : X.stores = s.stores) (h2 : X.metas = s.metas) (h3 : X.stamp = s.stamp) : RO s X :=
  ⟨hs, fun h => ⟨by intro p hp; rw [hs]; exact h p (hsub p hp), h1, h2, h3⟩⟩

theorem mem_setEntry {s : State} {r : Nat} {e : Entry} {p : Nat × Entry}
    (hp : p ∈ (s.setEntry r e).entries) : p = (r, e) ∨ p ∈ s.entries := by
  unfold State.setEntry at hp
  simp only at hp
  split at hp
  · obtain ⟨q, hq, rfl⟩ := List.mem_map.mp hp
    by_cases hqr : q.1 = r
    · simp [hqr]
    · simp only [hqr, if_false]; exact Or.inr hq
  · rcases List.mem_append.mp hp with h | h
    · exact Or.inr h
    · simp only [List.mem_cons, List.not_mem_nil, or_false] at h; exact Or.inl h

/-- a state whose entries are the old ones with one entry set to a clean value -/
theorem ro_set {s s' X : State} {r : Nat} {e : Entry} (he : X.entries = (s'.setEntry r e).entries)
    (hes : s'.entries = s.entries) (hc : AllClean s → CleanE s.strategy e) (hs : X.strategy = s.strategy)
    (h1 : X.stores = s.stores) (h2 : X.metas = s.metas) (h3 : X.stamp = s.stamp) : RO s X := by
  refine ⟨hs, fun h => ⟨?_, h1, h2, h3⟩⟩
  intro p hp
  rw [he] at hp
  rw [hs]
  rcases mem_setEntry hp with rfl | hmem
  · exact hc h
  · rw [hes] at hmem; exact h p hmem

theorem mem_of_entry {s : State} {r : Nat} {e : Entry} (h : s.entry r = some e) : (r, e) ∈ s.entries := by
  unfold State.entry at h
  cases hf : s.entries.find? (·.1 = r) with
  | none => simp [hf] at h
  | some p =>
    simp only [hf, Option.map_some, Option.some.injEq] at h
    have h1 := List.mem_of_find?_eq_some hf
    have h2 := List.find?_some hf
    simp only [decide_eq_true_eq] at h2
    have : p = (r, e) := by cases p; simp_all
    rw [← this]; exact h1

theorem ro_own (s : State) (a b c : Nat) : RO s (s.own a b c) := by
  unfold State.own; split <;> exact RO.of_same rfl rfl rfl rfl rfl

theorem ro_mergeInto (s : State) (oi : Nat) (o : Obj) (d : J) : RO s (mergeInto s oi o d).1 :=
  RO.of_core (mergeInto_core s oi o d)

theorem ro_flushSer (s : State) (oi : Nat) (o : Obj) (force : Bool) (hst : s.strategy = .serialized) :
    RO s (flushSer s oi o force).1 := by
  refine ⟨?_, ?_⟩
  · exact (keeps_flushSer s oi o force hst).1
  · intro hclean
    unfold flushSer
    split
    · cases he : s.entry o.res with
      | none => exact ⟨hclean, rfl, rfl, rfl⟩
      | some e =>
        have hce : Tr.same e.contents e.hash = true := by
          have := hclean (o.res, e) (mem_of_entry he)
          simpa [CleanE, hst] using this
        simp only [hce, Bool.not_true, Bool.false_eq_true, if_false]
        refine ⟨?_, rfl, rfl, rfl⟩
        intro p hp
        have : p ∈ s.entries := (List.mem_filter.mp hp).1
        exact hclean p this
    · exact ⟨hclean, rfl, rfl, rfl⟩


theorem ro_flushMem (s : State) (oi : Nat) (o : Obj) (force : Bool) (hst : s.strategy = .sharedMemory) :
    RO s (flushMem s oi o force).1 := by
  refine ⟨(keeps_flushMem s oi o force hst).1, ?_⟩
  intro hclean
  unfold flushMem
  split
  · cases he : s.entry o.res with
    | none =>
      simp only
      split
      · -- merge the file content in place: memory only
        split
        · exact ⟨hclean, rfl, rfl, rfl⟩
        · exact (ro_mergeInto _ _ _ _).2 hclean
      · exact ⟨hclean, rfl, rfl, rfl⟩
    | some e =>
      have hm : e.modified = false := by
        have := hclean (o.res, e) (mem_of_entry he)
        simpa [CleanE, hst] using this
      simp only [hm, Bool.false_eq_true, if_false]
      cases force
      · refine ⟨?_, rfl, rfl, rfl⟩
        intro p hp
        exact hclean p (List.mem_filter.mp hp).1
      · exact (ro_set (s := s) (s' := s) (r := o.res) (e := { e with modified := false }) rfl rfl
          (fun _ => by simp [CleanE, hst]) rfl rfl rfl rfl).2 hclean
  · -- a container of its own: memory only
    exact (RO.of_same (s := s) rfl rfl rfl rfl rfl).2 hclean

theorem ro_flushOne (s : State) (oi : Nat) (force : Bool) : RO s (flushOne s oi force).1 := by
  unfold flushOne
  split
  · exact RO.refl s
  · split
    · rename_i h; exact ro_flushSer s oi _ force h
    · rename_i h; exact ro_flushMem s oi _ force h
    · exact RO.refl s

theorem ro_flushBufferLoop (force retain : Bool) (order : List Nat) :
    ∀ (s : State) (remaining issues : List Nat),
      RO s (flushBufferLoop force retain order s remaining issues).1 := by
  induction order with
  | nil => intro s _ _; exact RO.refl s
  | cons oi rest ih =>
    intro s remaining issues
    unfold flushBufferLoop
    split
    · exact ih s remaining issues
    · split
      · exact ih s _ issues
      · simp only
        cases hf : flushOne s oi force with
        | mk s1 err =>
          have h1 : RO s s1 := by have := ro_flushOne s oi force; rwa [hf] at this
          simp only
          split <;> exact h1.trans (ih s1 _ _)

theorem ro_flushBuffer (s : State) (force : Bool) : RO s (flushBuffer s force).1 := by
  unfold flushBuffer
  simp only
  have h0 : RO s { s with registry := [] } := RO.of_same rfl rfl rfl rfl rfl
  have h1 := ro_flushBufferLoop force (s.strategy == .sharedMemory) s.registry.reverse
    { s with registry := [] } [] []
  cases hl : flushBufferLoop force (s.strategy == .sharedMemory) s.registry.reverse
      { s with registry := [] } [] [] with
  | mk s1 rest =>
    rw [hl] at h1
    obtain ⟨remaining, issues⟩ := rest
    simp only
    have h2 : RO s1 { s1 with registry := remaining ++ s1.registry.filter (fun x => !remaining.contains x) } :=
      RO.of_same rfl rfl rfl rfl rfl
    split <;> exact (h0.trans h1).trans h2

theorem ro_setCapacity (s : State) (n : Nat) : RO s (setCapacity s n).1 := by
  unfold setCapacity
  simp only
  have h0 : RO s { s with capacity := n } := RO.of_same rfl rfl rfl rfl rfl
  split
  · exact h0.trans (ro_flushBuffer _ true)
  · exact h0


theorem ro_register (s : State) (i : Nat) : RO s (s.register i) := by
  unfold State.register; split <;> exact RO.of_same rfl rfl rfl rfl rfl

theorem ro_ensureEntry (s : State) (oi : Nat) (o : Obj) : RO s (ensureEntry s oi o).1 := by
  unfold ensureEntry
  simp only
  have key : RO s (if (s.entry o.res).isSome = true then (s, (none : Option Err)) else
      match (match loadFromResource s o with
          | none => (s, none)
          | some d => mergeInto s oi o d) with
      | (s1, err) =>
        match err with
        | some e => (s1, some e)
        | none =>
          match s.strategy with
          | .serialized => (initEntrySer s1 o, none)
          | _ => (initEntryMem s1 o false, none)).1 := by
    split
    · exact RO.refl s
    · have hmerge : ∀ p : State × Option Err, RO s p.1 → p.1.entries = s.entries →
          RO s (match p with
            | (s1, err) =>
              match err with
              | some e => (s1, some e)
              | none =>
                match s.strategy with
                | .serialized => (initEntrySer s1 o, none)
                | _ => (initEntryMem s1 o false, none)).1 := by
        intro p hro hent
        obtain ⟨s1, err⟩ := p
        simp only at hro hent ⊢
        cases err with
        | some e => exact hro
        | none =>
          simp only
          split
          · rename_i hs
            refine ⟨hro.1, fun hclean => ?_⟩
            obtain ⟨_, hd⟩ := hro.2 hclean
            have := ro_set (s := s) (s' := s1) (X := initEntrySer s1 o) (r := o.res)
              (e := ⟨(s1.root o).toBase, (s1.root o).toBase, s1.stat o.res, o.cell, false⟩) rfl hent
              (fun _ => by simp [CleanE, hs, same_refl]) hro.1 hd.1 hd.2.1 hd.2.2
            exact this.2 hclean
          · rename_i hs
            refine ⟨hro.1, fun hclean => ?_⟩
            obtain ⟨_, hd⟩ := hro.2 hclean
            have := ro_set (s := s) (s' := s1) (X := initEntryMem s1 o false) (r := o.res)
              (e := ⟨.leaf .null, .leaf .null, s1.stat o.res, o.cell, false⟩) rfl hent
              (fun _ => by cases hst : s.strategy <;> simp_all [CleanE]) hro.1 hd.1 hd.2.1 hd.2.2
            exact this.2 hclean
      cases hl : loadFromResource s o with
      | none => exact hmerge (s, none) (RO.refl s) rfl
      | some d => exact hmerge (mergeInto s oi o d) (ro_mergeInto s oi o d) (sameBook_mergeInto s oi o d).1
  revert key
  generalize (if (s.entry o.res).isSome = true then (s, (none : Option Err)) else _) = p
  intro key
  obtain ⟨s1, err⟩ := p
  cases err with
  | some e => exact key
  | none => exact key.trans (ro_register s1 oi)

theorem ro_load (s : State) (oi : Nat) : RO s (load s oi).1 := by
  unfold load
  split
  · exact RO.refl s
  · rename_i o _
    split
    · split
      · cases he : ensureEntry s oi o with
        | mk s1 err =>
          have h1 : RO s s1 := by have := ro_ensureEntry s oi o; rwa [he] at this
          simp only
          cases err with
          | some e => exact h1
          | none =>
            simp only
            split
            · exact h1
            · have h2 : RO s1 (if s1.size > s1.capacity then flushBuffer s1 true else (s1, none)).1 := by
                split
                · exact ro_flushBuffer s1 true
                · exact RO.refl s1
              revert h2
              generalize (if s1.size > s1.capacity then flushBuffer s1 true else (s1, none)) = p
              intro h2
              obtain ⟨s2, ferr⟩ := p
              cases ferr with
              | some fe => exact h1.trans h2
              | none => exact (h1.trans h2).trans (ro_mergeInto _ _ _ _)
      · cases he : ensureEntry s oi o with
        | mk s1 err =>
          have h1 : RO s s1 := by have := ro_ensureEntry s oi o; rwa [he] at this
          simp only
          cases err with
          | some e => exact h1
          | none =>
            simp only
            split
            · exact h1
            · exact h1.trans (RO.of_same rfl rfl rfl rfl rfl)
      · exact RO.refl s
    · split
      · exact RO.refl s
      · exact ro_mergeInto _ _ _ _

theorem ro_putNode (s : State) (h : Handle) (t : T) : RO s (putNode s h t) := by
  unfold putNode
  cases h with
  | root o => simp only; split <;> exact RO.of_same rfl rfl rfl rfl rfl
  | node id => exact RO.of_same rfl rfl rfl rfl rfl

/-- a READ call (any handle, any read operation) cannot dirty anything -/
theorem ro_call_read (s : State) (h : Handle) (op : Op) (hr : op.isRead = true) : RO s (call s h op).1 := by
  unfold call
  split
  · rename_i oi isRoot t0 _ _
    split
    · exact RO.refl s
    · have hload : RO s (if (op.isOverwrite && isRoot || op.skipsLoad) = true then (s, (none : Option Err))
          else
            match load s oi with
            | (s1, e1) =>
              match e1 with
              | some e => (s1, some e)
              | none =>
                match handleNode s1 h with
                | some t => if op.loadsTwice t = true then load s1 oi else (s1, none)
                | none => (s1, none)).1 := by
        split
        · exact RO.refl s
        · cases hl : load s oi with
          | mk s1 e1 =>
            have h1 : RO s s1 := by have := ro_load s oi; rwa [hl] at this
            simp only
            cases e1 with
            | some e => exact h1
            | none =>
              simp only
              split
              · split
                · exact h1.trans (ro_load s1 oi)
                · exact h1
              · exact h1
      revert hload
      generalize (if (op.isOverwrite && isRoot || op.skipsLoad) = true then (s, (none : Option Err)) else _) = p
      intro hload
      obtain ⟨s1, lerr⟩ := p
      simp only at hload ⊢
      cases lerr with
      | some e => exact hload
      | none =>
        simp only
        split
        · exact hload
        · rename_i t _
          have h2 : RO s1 (((putNode s1 h (runBody s.fam t op s1.next).node).own oi s1.next
              (runBody s.fam t op s1.next).next).addDetached oi (runBody s.fam t op s1.next).det) :=
            ((ro_putNode s1 h _).trans (ro_own _ _ _ _)).trans (RO.of_same rfl rfl rfl rfl rfl)
          simp only [hr, if_true]
          split <;> exact hload.trans h2
  · exact RO.refl s


theorem ro_enterObj (s : State) (oi : Nat) : RO s (enterObj s oi) := by
  unfold enterObj; split
  · exact RO.refl s
  · exact RO.of_same rfl rfl rfl rfl rfl

theorem ro_exitObj (s : State) (oi : Nat) : RO s (exitObj s oi).1 := by
  unfold exitObj; split
  · exact RO.refl s
  · simp only
    split
    · exact (RO.of_same rfl rfl rfl rfl rfl).trans (ro_flushOne _ _ _)
    · exact RO.of_same rfl rfl rfl rfl rfl

theorem ro_enterCls (s : State) (cap : Option Nat) : RO s (enterCls s cap).1 := by
  unfold enterCls
  simp only
  cases cap with
  | none => exact RO.of_same rfl rfl rfl rfl rfl
  | some c =>
    exact (RO.of_same (s' := { { s with ctx := s.ctx + 1 } with capStack := some s.capacity :: s.capStack })
      rfl rfl rfl rfl rfl).trans (ro_setCapacity _ c)

theorem ro_exitCls (s : State) : RO s (exitCls s).1 := by
  unfold exitCls
  simp only
  have h1 : RO s (if s.ctx - 1 = 0 then flushBuffer { s with ctx := s.ctx - 1 } false
      else ({ s with ctx := s.ctx - 1 }, none)).1 := by
    have h0 : RO s { s with ctx := s.ctx - 1 } := RO.of_same rfl rfl rfl rfl rfl
    split
    · exact h0.trans (ro_flushBuffer _ false)
    · exact h0
  revert h1
  generalize (if s.ctx - 1 = 0 then flushBuffer { s with ctx := s.ctx - 1 } false
      else ({ s with ctx := s.ctx - 1 }, none)) = p
  intro h1
  obtain ⟨s2, ferr⟩ := p
  simp only at h1 ⊢
  split
  · exact h1
  · rename_i top rest _
    cases top with
    | none => exact h1.trans (RO.of_same rfl rfl rfl rfl rfl)
    | some c =>
      simp only
      exact (h1.trans (RO.of_same (s' := { s2 with capStack := rest }) rfl rfl rfl rfl rfl)).trans
        (ro_setCapacity _ c)

theorem ro_openObj (s : State) (d : Bool) (r : Nat) (data : Option J) : RO s (openObj s d r data).1 := by
  unfold openObj
  simp only
  cases data with
  | none =>
    simp only
    exact RO.trans (RO.of_same rfl rfl rfl rfl rfl) (ro_own _ _ _ _)
  | some dd =>
    simp only
    split
    · exact RO.refl s
    · split
      · exact RO.refl s
      · exact RO.trans (RO.of_same rfl rfl rfl rfl rfl) (ro_own _ _ _ _)

/-- the steps of a history that cannot modify data: reads through any handle, entering and
leaving contexts of both kinds (with or without a capacity), capacity changes, new objects -/
def Step.readOnly : Step → Bool
  | .call _ op => op.isRead
  | .enterObj _ | .exitObj _ | .enterCls _ | .exitCls | .setCap _ | .openObj _ _ _ | .setFailing _ => true
  | .ext _ _ | .extDel _ => false

theorem ro_step (s : State) (st : Step) (h : st.readOnly = true) : RO s (step s st) := by
  cases st with
  | call hd op => exact ro_call_read s hd op h
  | enterObj oi => exact ro_enterObj s oi
  | exitObj oi => exact ro_exitObj s oi
  | enterCls cap => exact ro_enterCls s cap
  | exitCls => exact ro_exitCls s
  | setCap n => exact ro_setCapacity s n
  | openObj d r data => exact ro_openObj s d r data
  | ext r d => simp [Step.readOnly] at h
  | extDel r => simp [Step.readOnly] at h
  | setFailing rs => exact RO.of_same rfl rfl rfl rfl rfl

theorem ro_run (steps : List Step) : ∀ s : State, (∀ st ∈ steps, st.readOnly = true) → RO s (run s steps) := by
  induction steps with
  | nil => intro s _; exact RO.refl s
  | cons st rest ih =>
    intro s h
    exact (ro_step s st (h st List.mem_cons_self)).trans (ih _ (fun x hx => h x (List.mem_cons_of_mem _ hx)))

end SC.B
