import SC.FS
namespace SC.FS

@[simp] theorem lookup_put_same (p : Path) (b : Bytes) (m : List (Path × Bytes)) :
    lookup p (put p b m) = some b := by simp [lookup, put]

theorem lookup_filter_other (p q : Path) (m : List (Path × Bytes)) (h : q ≠ p) :
    lookup q (m.filter (·.1 ≠ p)) = lookup q m := by
  simp only [lookup]
  congr 1
  induction m with
  | nil => rfl
  | cons x xs ih =>
    by_cases hx : x.1 = p
    · have h1 : decide (x.1 ≠ p) = false := by simp [hx]
      have h2 : decide (x.1 = q) = false := by simp [hx]; exact fun e => h e.symm
      simp only [List.filter_cons, h1, List.find?_cons, h2]
      exact ih
    · have h1 : decide (x.1 ≠ p) = true := by simp [hx]
      simp only [List.filter_cons, h1, if_true, List.find?_cons]
      split
      · rfl
      · exact ih

theorem lookup_put_other (p q : Path) (b : Bytes) (m : List (Path × Bytes)) (h : q ≠ p) :
    lookup q (put p b m) = lookup q m := by
  have : decide (p = q) = false := by simp; exact fun e => h e.symm
  have h2 := lookup_filter_other p q m h
  simp only [lookup, put, List.find?_cons, this] at h2 ⊢
  exact h2

theorem lookup_drop_other (p q : Path) (m : List (Path × Bytes)) (h : q ≠ p) :
    lookup q (drop p m) = lookup q m := lookup_filter_other p q m h

@[simp] theorem lookup_drop_same (p : Path) (m : List (Path × Bytes)) : lookup p (drop p m) = none := by
  simp [lookup, drop, List.find?_eq_none]

/-- does the operation act on file `q`? -/
def touches : FsOp → Path → Bool
  | .openTrunc p, q => p == q
  | .write p _, q => p == q
  | .close p, q => p == q
  | .replace src dst, q => src == q || dst == q
  | .stat _, _ => false

theorem exec_untouched (d : Disk) (op : FsOp) (q : Path) (h : touches op q = false) :
    (exec d op).get q = d.get q ∧ (exec d op).pend q = d.pend q := by
  cases op with
  | openTrunc p =>
    simp [touches] at h
    have hq : q ≠ p := fun e => h e.symm
    exact ⟨lookup_put_other p q [] d.files hq, by simp [Disk.pend, exec, lookup_drop_other p q _ hq]⟩
  | write p bs =>
    simp [touches] at h
    have hq : q ≠ p := fun e => h e.symm
    exact ⟨rfl, by simp [Disk.pend, exec, lookup_put_other p q _ _ hq]⟩
  | close p =>
    simp [touches] at h
    have hq : q ≠ p := fun e => h e.symm
    simp only [exec]
    split
    · exact ⟨lookup_put_other p q _ d.files hq, by simp [Disk.pend, lookup_drop_other p q _ hq]⟩
    · exact ⟨rfl, by simp [Disk.pend, lookup_drop_other p q _ hq]⟩
  | stat p => exact ⟨rfl, rfl⟩
  | replace src dst =>
    simp [touches] at h
    have h1 : q ≠ src := fun e => h.1 e.symm
    have h2 : q ≠ dst := fun e => h.2 e.symm
    simp only [exec]
    split
    · refine ⟨?_, ?_⟩
      · show lookup q (drop src (put dst _ d.files)) = lookup q d.files
        rw [lookup_drop_other _ _ _ h1, lookup_put_other _ _ _ _ h2]
      · show (lookup q (drop src (put dst _ d.pending))).getD [] = (lookup q d.pending).getD []
        rw [lookup_drop_other _ _ _ h1, lookup_put_other _ _ _ _ h2]
    · exact ⟨rfl, rfl⟩

theorem observe_congr {d d' : Disk} {q : Path} (h1 : d'.get q = d.get q) (h2 : d'.pend q = d.pend q) :
    observe d' q = observe d q := by
  simp [observe, h1, h2]

/-- ops none of which acts on `q`: at every crash point `q` is what a crash before them would
have left -/
theorem crashContents_untouched (ops : List FsOp) :
    ∀ (d : Disk) (q : Path), (∀ op ∈ ops, touches op q = false) →
      ∀ c ∈ crashContents d ops q, c ∈ observe d q := by
  induction ops with
  | nil => intro d q _ c hc; exact hc
  | cons op rest ih =>
    intro d q h c hc
    simp only [crashContents, List.mem_append] at hc
    rcases hc with h0 | hr
    · exact h0
    · have := ih (exec d op) q (fun o ho => h o (List.mem_cons_of_mem _ ho)) c hr
      have hu := exec_untouched d op q (h op List.mem_cons_self)
      rwa [observe_congr hu.1 hu.2] at this

theorem run_untouched (ops : List FsOp) :
    ∀ (d : Disk) (q : Path), (∀ op ∈ ops, touches op q = false) →
      (run d ops).get q = d.get q ∧ (run d ops).pend q = d.pend q := by
  induction ops with
  | nil => intro d q _; exact ⟨rfl, rfl⟩
  | cons op rest ih =>
    intro d q h
    simp only [run, List.foldl_cons]
    have := ih (exec d op) q (fun o ho => h o (List.mem_cons_of_mem _ ho))
    simp only [run] at this
    have hu := exec_untouched d op q (h op List.mem_cons_self)
    exact ⟨this.1.trans hu.1, this.2.trans hu.2⟩

theorem crashContents_append (A B : List FsOp) :
    ∀ (d : Disk) (q : Path) (c : Option Bytes), c ∈ crashContents d (A ++ B) q →
      c ∈ crashContents d A q ∨ c ∈ crashContents (run d A) B q := by
  induction A with
  | nil =>
    intro d q c h
    exact Or.inr h
  | cons op rest ih =>
    intro d q c h
    simp only [List.cons_append, crashContents, List.mem_append] at h ⊢
    rcases h with h0 | hr
    · exact Or.inl (Or.inl h0)
    · rcases ih (exec d op) q c hr with h1 | h2
      · exact Or.inl (Or.inr h1)
      · exact Or.inr (by simpa [run] using h2)

theorem observe_clean {d : Disk} {q : Path} (h : d.pend q = []) : observe d q = [d.get q] := by
  unfold observe
  cases hg : d.get q with
  | none => rfl
  | some b => simp [h]

/-- state of the temporary file after `open; write blob; close` -/
theorem after_write_tmp (d : Disk) (tmp : Path) (blob : Bytes) :
    (run d [FsOp.openTrunc tmp, .write tmp blob, .close tmp]).get tmp = some blob ∧
    (run d [FsOp.openTrunc tmp, .write tmp blob, .close tmp]).pend tmp = [] := by
  simp [run, exec, Disk.get, Disk.pend]

/-- the atomic save: at every crash point the target holds its previous content or the
complete new blob -/
theorem atomic_save_old_or_new (d : Disk) (target tmp : Path) (blob : Bytes) (hne : tmp ≠ target)
    (hclean : d.pend target = []) :
    ∀ c ∈ crashContents d (saveSteps true target tmp blob) target, c = d.get target ∨ c = some blob := by
  intro c hc
  have hsplit : saveSteps true target tmp blob
      = [.openTrunc tmp, .write tmp blob, .close tmp] ++ [.replace tmp target] := rfl
  rw [hsplit] at hc
  have hA : ∀ op ∈ [FsOp.openTrunc tmp, .write tmp blob, .close tmp], touches op target = false := by
    intro op hop
    simp only [List.mem_cons, List.not_mem_nil, or_false] at hop
    rcases hop with rfl | rfl | rfl <;> simp [touches, hne]
  rcases crashContents_append _ _ d target c hc with h1 | h2
  · have := crashContents_untouched _ d target hA c h1
    rw [observe_clean hclean] at this
    exact Or.inl (by simpa using this)
  · have hold := run_untouched _ d target hA
    have htmp := after_write_tmp d tmp blob
    simp only [crashContents, List.mem_append] at h2
    rcases h2 with h0 | h3
    · rw [observe_clean (hold.2.trans hclean)] at h0
      exact Or.inl (by simpa [hold.1] using h0)
    · right
      have hget : (exec (run d [FsOp.openTrunc tmp, .write tmp blob, .close tmp]) (.replace tmp target)).get target
          = some blob := by
        simp only [exec, htmp.1]
        show lookup target (drop tmp (put target blob _)) = some blob
        rw [lookup_drop_other _ _ _ (fun e => hne e.symm)]; simp
      have hpend : (exec (run d [FsOp.openTrunc tmp, .write tmp blob, .close tmp]) (.replace tmp target)).pend target
          = [] := by
        simp only [exec, htmp.1]
        show (lookup target (drop tmp (put target _ _))).getD [] = []
        rw [lookup_drop_other _ _ _ (fun e => hne e.symm), htmp.2]; simp
      rw [observe_clean hpend, hget] at h3
      simpa using h3

/-- ... and when the save completes the target holds the blob, nothing is pending on it, and
the temporary file is gone -/
theorem atomic_save_completes (d : Disk) (target tmp : Path) (blob : Bytes) (hne : tmp ≠ target) :
    (run d (saveSteps true target tmp blob)).get target = some blob ∧
    (run d (saveSteps true target tmp blob)).pend target = [] ∧
    (run d (saveSteps true target tmp blob)).get tmp = none := by
  have htmp := after_write_tmp d tmp blob
  have hrun : run d (saveSteps true target tmp blob)
      = exec (run d [FsOp.openTrunc tmp, .write tmp blob, .close tmp]) (.replace tmp target) := rfl
  rw [hrun]
  simp only [exec, htmp.1]
  refine ⟨?_, ?_, ?_⟩
  · show lookup target (drop tmp (put target blob _)) = some blob
    rw [lookup_drop_other _ _ _ (fun e => hne e.symm)]; simp
  · show (lookup target (drop tmp (put target _ _))).getD [] = []
    rw [lookup_drop_other _ _ _ (fun e => hne e.symm), htmp.2]; simp
  · show lookup tmp (drop tmp _) = none
    simp

end SC.FS

namespace SC.FS

theorem saveSteps_touches (atomic : Bool) (t tmp : Path) (blob : Bytes) (q : Path) (h1 : q ≠ t) (h2 : q ≠ tmp) :
    ∀ op ∈ saveSteps atomic t tmp blob, touches op q = false := by
  intro op hop
  unfold saveSteps at hop
  cases atomic <;> simp only [if_true, Bool.false_eq_true, if_false, List.mem_cons, List.not_mem_nil, or_false] at hop
  · rcases hop with rfl | rfl | rfl <;> simp [touches] <;> exact fun e => h1 e.symm
  · rcases hop with rfl | rfl | rfl | rfl <;> simp [touches] <;>
      first | exact fun e => h2 e.symm | exact ⟨fun e => h2 e.symm, fun e => h1 e.symm⟩

theorem flushSteps_touches (atomic : Bool) (items : List FlushItem) (q : Path)
    (h : ∀ it ∈ items, q ≠ it.target ∧ q ≠ it.tmp) :
    ∀ op ∈ flushSteps atomic items, touches op q = false := by
  induction items with
  | nil => intro op hop; simp [flushSteps] at hop
  | cons it rest ih =>
    intro op hop
    simp only [flushSteps, List.mem_cons, List.mem_append] at hop
    rcases hop with rfl | hs | hr
    · rfl
    · exact saveSteps_touches atomic it.target it.tmp it.blob q (h it List.mem_cons_self).1
        (h it List.mem_cons_self).2 op hs
    · exact ih (fun x hx => h x (List.mem_cons_of_mem _ hx)) op hr

/-- C08 for a buffer flush of any number of files: with atomic saves, at EVERY crash point
every flushed file holds its previous content or its complete new content. -/
theorem flush_old_or_new (items : List FlushItem) :
    (items.map (·.target)).Nodup →
    (∀ a ∈ items, ∀ b ∈ items, a.tmp ≠ b.target) →
    ∀ (d : Disk), (∀ it ∈ items, d.pend it.target = []) →
    ∀ it ∈ items, ∀ c ∈ crashContents d (flushSteps true items) it.target,
      c = d.get it.target ∨ c = some it.blob := by
  induction items with
  | nil => intro _ _ d _ it hit; simp at hit
  | cons x rest ih =>
    intro hnd htmp d hclean it hit c hc
    simp only [List.map_cons, List.nodup_cons] at hnd
    have hsplit : flushSteps true (x :: rest)
        = ([.stat x.target] ++ saveSteps true x.target x.tmp x.blob) ++ flushSteps true rest := by
      simp [flushSteps]
    rw [hsplit] at hc
    have hxne : x.tmp ≠ x.target := htmp x List.mem_cons_self x List.mem_cons_self
    have htail_x : ∀ op ∈ flushSteps true rest, touches op x.target = false := by
      apply flushSteps_touches
      intro y hy
      refine ⟨?_, ?_⟩
      · intro e; exact hnd.1 (List.mem_map.mpr ⟨y, hy, e.symm⟩)
      · intro e; exact htmp y (List.mem_cons_of_mem _ hy) x List.mem_cons_self e.symm
    have hsave_other : ∀ y ∈ rest, ∀ op ∈ saveSteps true x.target x.tmp x.blob, touches op y.target = false := by
      intro y hy
      apply saveSteps_touches
      · intro e; exact hnd.1 (List.mem_map.mpr ⟨y, hy, e⟩)
      · intro e; exact htmp x List.mem_cons_self y (List.mem_cons_of_mem _ hy) e.symm
    rcases crashContents_append _ _ d it.target c hc with h1 | h2
    · -- crash while x is being saved
      rcases crashContents_append _ _ d it.target c h1 with h0 | h1'
      · -- around the stat
        have : c ∈ observe d it.target := by
          simp only [crashContents, exec, List.mem_append, or_self] at h0
          exact h0
        rw [observe_clean (hclean it hit)] at this
        exact Or.inl (by simpa using this)
      · have hrun : run d [FsOp.stat x.target] = d := rfl
        rw [hrun] at h1'
        rcases List.mem_cons.mp hit with rfl | hin
        · exact atomic_save_old_or_new d _ _ _ hxne (hclean _ List.mem_cons_self) c h1'
        · left
          have := crashContents_untouched _ d it.target (hsave_other it hin) c h1'
          rw [observe_clean (hclean it hit)] at this
          simpa using this
    · -- crash later: x is complete
      have hrunx : run d ([FsOp.stat x.target] ++ saveSteps true x.target x.tmp x.blob)
          = run d (saveSteps true x.target x.tmp x.blob) := rfl
      rw [hrunx] at h2
      have hdone := atomic_save_completes d x.target x.tmp x.blob hxne
      rcases List.mem_cons.mp hit with rfl | hin
      · right
        have := crashContents_untouched _ _ _ htail_x c h2
        rw [observe_clean hdone.2.1, hdone.1] at this
        simpa using this
      · have hsame := run_untouched _ d it.target (hsave_other it hin)
        have hclean' : ∀ y ∈ rest, (run d (saveSteps true x.target x.tmp x.blob)).pend y.target = [] := by
          intro y hy
          rw [(run_untouched _ d y.target (hsave_other y hy)).2]
          exact hclean y (List.mem_cons_of_mem _ hy)
        have hih := ih hnd.2 (fun a ha b hb => htmp a (List.mem_cons_of_mem _ ha) b (List.mem_cons_of_mem _ hb))
          (run d (saveSteps true x.target x.tmp x.blob)) hclean' it hin c h2
        rw [hsame.1] at hih
        exact hih

/-- the non-atomic mode really is not crash safe in the model: a crash right after the
truncating open leaves the target empty -/
theorem plain_save_can_truncate :
    ∃ c ∈ crashContents (⟨[(0, [1, 2, 3])], []⟩ : Disk) (saveSteps false 0 9 [7, 8]) 0,
      c ≠ some [1, 2, 3] ∧ c ≠ some [7, 8] := by
  refine ⟨some [], ?_, ?_⟩ <;> decide

/-- installing the temporary file *before* closing it is not crash safe in the model either:
the pending bytes travel with the file, so the target can be seen with a strict prefix -/
theorem replace_before_close_not_atomic :
    ∃ c ∈ crashContents (⟨[(0, [1, 2, 3])], []⟩ : Disk)
        [.openTrunc 9, .write 9 [7, 8], .replace 9 0, .close 0] 0,
      c ≠ some [1, 2, 3] ∧ c ≠ some [7, 8] := by
  refine ⟨some [7], ?_, ?_⟩ <;> decide

end SC.FS
