/-
L1 — sequential model of synced objects: root objects bound to resources, child
handles (node identities), outside writers.  Every public operation is
"validate; [lock;] load; body; save" exactly as in the code; locks are not
visible sequentially and appear in `Conc.lean`.
-/
import SC.Tree
import SC.Builtin
namespace SC

/-- a root synced object -/
structure Obj where
  fam : Nat          -- index into the family table
  isDict : Bool
  res : Nat          -- resource (file name / redis key / mongo uid / zarr name)
  root : T           -- the object's in-memory tree; its own identity is `root.id?`
deriving Repr, Inhabited

structure State where
  fams : List Fam
  /-- which families use attribute access (AttrDict mix-in) -/
  stores : List (Nat × J)        -- resource ↦ content; absent = missing resource
  objs : List Obj
  /-- container nodes that fell out of their tree, with the object that owns them -/
  detached : List (Nat × T)
  /-- identity ranges `[lo, hi)` allocated on behalf of object `o` -/
  owners : List (Nat × Nat × Nat)
  next : Nat
deriving Repr, Inhabited

namespace State

def empty (fams : List Fam) : State := ⟨fams, [], [], [], [], 0⟩

def store (s : State) (r : Nat) : Option J := (s.stores.find? (·.1 = r)).map (·.2)

def setStore (s : State) (r : Nat) (d : J) : State :=
  { s with stores := (r, d) :: s.stores.filter (·.1 ≠ r) }

def delStore (s : State) (r : Nat) : State :=
  { s with stores := s.stores.filter (·.1 ≠ r) }

def fam (s : State) (o : Obj) : Fam := s.fams.getD o.fam default

def ownerOf (s : State) (id : Nat) : Option Nat :=
  (s.owners.find? (fun r => r.2.1 ≤ id ∧ id < r.2.2)).map (·.1)

def setObj (s : State) (oi : Nat) (o : Obj) : State := { s with objs := s.objs.set oi o }

def addDetached (s : State) (oi : Nat) (ts : List T) : State :=
  { s with detached := s.detached ++ (containers ts).map (fun t => (oi, t)) }

/-- record that identities `[lo, hi)` belong to object `oi` -/
def own (s : State) (oi lo hi : Nat) : State :=
  if lo < hi then { s with owners := s.owners ++ [(oi, lo, hi)], next := hi } else { s with next := hi }

end State

/-- a handle: a root object, or a container node obtained from an earlier access -/
inductive Handle where
  | root (o : Nat)
  | node (id : Nat)
deriving Repr, DecidableEq, Inhabited

/-! ### load / save of a root object (unbuffered) -/

/-- `_load()` on root object `oi`: read the resource, merge into memory. -/
def loadRoot (s : State) (oi : Nat) : State × Option Err :=
  match s.objs[oi]? with
  | none => (s, some (.other "NoSuchObject"))
  | some o =>
    match s.store o.res with
    | none => (s, none)                       -- missing resource: `_update(None)`
    | some d =>
      let r := updNode (s.fam o) o.root d s.next
      let s1 := (s.setObj oi { o with root := r.val }).own oi s.next r.next
      (s1.addDetached oi r.det, r.err)

/-- `_save()` on root object `oi`: write the whole tree to the resource. -/
def saveRoot (s : State) (oi : Nat) : State :=
  match s.objs[oi]? with
  | none => s
  | some o => s.setStore o.res o.root.toBase

/-! ### locating and replacing nodes -/

/-- the subtree for node `id`, wherever it currently lives -/
def findNode (s : State) (id : Nat) : Option T :=
  match s.objs.findSome? (fun o => Tr.find id o.root) with
  | some t => some t
  | none => s.detached.findSome? (fun p => Tr.find id p.2)

def replaceNode (s : State) (id : Nat) (new : T) : State :=
  { s with
    objs := s.objs.map (fun o => { o with root := Tr.replace id new o.root })
    detached := s.detached.map (fun p => (p.1, Tr.replace id new p.2)) }

/-! ### operations -/

/-- arguments as the user passes them (plain data, possibly invalid) -/
inductive Op where
  -- dict mutators
  | dSetitem (k : Key) (v : J)
  | dDelitem (k : Key)
  | dPop (k : Key) (dflt : J)
  | dPopitem
  | dClear
  | dUpdate (other : List (Key × J)) (kw : List (Key × J))
  | dSetdefault (k : Key) (dflt : J)
  | dReset (v : J)
  -- list mutators
  | lSetitem (ix : Idx) (v : J)
  | lDelitem (ix : Idx)
  | lInsert (i : Int) (v : J)
  | lAppend (v : J)
  | lExtend (v : J)
  | lIadd (v : J)
  | lRemove (v : J)
  | lClear
  | lPop (i : Int)
  | lReverse
  | lReset (v : J)
  -- reads
  | dRead (r : DictRead)
  | lRead (r : ListRead)
deriving Repr

def Op.isRead : Op → Bool
  | .dRead _ | .lRead _ => true
  | _ => false

/-- `Sequence.index` (the ABC mix-in) touches the collection only if it calls
`len(self)` (negative bounds) or enters its loop; otherwise it raises
`ValueError` without loading. -/
def Op.skipsLoad : Op → Bool
  | .lRead (.index _ start stop) =>
    match stop with
    | none => false
    | some b => decide (0 ≤ start) && decide (0 ≤ b) && decide (b ≤ start)
  | _ => false

/-- Does the read perform at least two `_load()`s of the root?  Sequentially a second load
is a no-op, but in buffered mode each load re-checks the buffer capacity, so the count
matters there (two are enough: a third load changes nothing any more).  `==`/`!=` load
and then call `self()`; `repr` loads once per nested container; the ABC mix-ins
`__contains__`/`count`/`index` compare elements with `==` (two loads per container
child) and `index` additionally loads on every `self[i]`. -/
def Op.loadsTwice (t : T) : Op → Bool
  | .dRead (.eq _) | .dRead (.ne _) | .lRead (.eq _) | .lRead (.ne _) => true
  | .dRead .repr => match t with
    | .dict _ kvs => kvs.any (fun kv => !kv.2.isLeaf)
    | _ => false
  | .lRead .repr => match t with
    | .list _ xs => xs.any (fun x => !x.isLeaf)
    | _ => false
  | .lRead (.count _) => match t with
    | .list _ xs => xs.any (fun x => !x.isLeaf)
    | _ => false
  | .lRead (.contains v) => match t with
    | .list _ xs =>
      let upto := match Py.findFrom (fun x => Tr.pyEq x v) xs 0 xs.length with
        | some j => xs.take (j + 1)
        | none => xs
      upto.any (fun x => !x.isLeaf)
    | _ => false
  | .lRead (.index v start stop) => match t with
    | .list _ xs =>
      let n : Int := xs.length
      let a := if start < 0 then max (n + start) 0 else start
      let b : Option Int := stop.map (fun b => if b < 0 then b + n else b)
      let hi : Int := match b with | none => n | some b => min b n
      let lens := (if start < 0 then 1 else 0) + (match stop with | some b => if b < 0 then 1 else 0 | none => 0)
      let found := Py.findFrom (fun x => Tr.pyEq x v) xs a.toNat (if hi < 0 then 0 else hi.toNat)
      let last : Int := match found with | some j => (j : Int) + 1 | none => hi
      let visited := if last > a then (last - a).toNat else 0
      -- the access that raises IndexError (loop runs past the end) also loads
      let overrun := match found, b with
        | some _, _ => 0
        | none, none => if a ≤ n then 1 else 1
        | none, some b => if b > n ∧ a ≤ b then 1 else 0
      let seen := (xs.drop a.toNat).take visited
      decide (lens + visited + overrun + 2 * (seen.filter (fun x => !x.isLeaf)).length ≥ 2)
    | _ => false
  | _ => false

/-- does the operation replace the whole content (no load needed at the root)? -/
def Op.isOverwrite : Op → Bool
  | .dClear | .lClear | .dReset _ | .lReset _ => true
  | _ => false

/-- result of running a body on a node -/
structure NodeRes where
  node : T
  out : Out Nat
  det : List T
  next : Nat
  err : Option Err

/-- validation that happens *before* the lock is taken; `none` = passes -/
def preValidate (fam : Fam) (isDict : Bool) : Op → Option Err
  | .dSetitem k v => validateKV fam.dictV [(k, v)]
  | .dReset v => if v.isDict then none else some .valueError
  | .lSetitem _ v => validate fam.listV v
  | .lInsert _ v => validate fam.listV v
  | .lAppend v => validate fam.listV v
  | .lExtend v | .lIadd v =>
    match iterate v with
    | .error e => some e
    | .ok vs => validateL fam.listV vs
  | .lReset v => if v.isList then none else some .valueError
  | _ => let _ := isDict; none

/-- keys of `m` in the order `{**self._data, **m}` visits them: first the ones
already present (in memory order), then the new ones -/
def overrideOrder (cur : List (Key × T)) (m : List (Key × J)) : List (Key × J) :=
  (cur.filterMap (fun kv => (Tr.lookup kv.1 m).map (fun v => (kv.1, v))))
    ++ m.filter (fun kv => !Tr.hasKey kv.1 cur)

/-- a plain `dict` method applied to the children of dict node `t = .dict i kvs` -/
def dmutRes (t : T) (i : Nat) (kvs : List (Key × T)) (m : DictMut T) (n : Nat) : NodeRes :=
  match dictMut kvs m with
  | .error e => ⟨t, .unit, [], n, some e⟩
  | .ok r => ⟨.dict i r.data, r.out, r.removed, n, none⟩

/-- a plain `list` method applied to the children of list node `t = .list i xs` -/
def lmutRes (t : T) (i : Nat) (xs : List T) (m : ListMut T) (n : Nat) : NodeRes :=
  match listMut xs m with
  | .error e => ⟨t, .unit, [], n, some e⟩
  | .ok r => ⟨.list i r.data, r.out, r.removed, n, none⟩

/-- run the body of `op` on the node `t` (after the load) -/
def runBody (fam : Fam) (t : T) (op : Op) (n : Nat) : NodeRes :=
  let fail (e : Err) : NodeRes := ⟨t, .unit, [], n, some e⟩
  let dmut := dmutRes t
  let lmut := lmutRes t
  match t, op with
  | .dict i kvs, .dSetitem k v => let r := fromBase v n; dmut i kvs (.setitem k r.1) r.2
  | .dict i kvs, .dDelitem k => dmut i kvs (.delitem k) n
  | .dict i kvs, .dPop k d => dmut i kvs (.pop k d) n
  | .dict i kvs, .dPopitem => dmut i kvs .popitem n
  | .dict i kvs, .dClear => dmut i kvs .clear n
  | .dict i kvs, .dSetdefault k d =>
    match Tr.lookup k kvs with
    | some v => ⟨t, .node v, [], n, none⟩
    | none =>
      match validateKV fam.dictV [(k, d)] with
      | some e => fail e
      | none =>
        let r := fromBase d n
        ⟨.dict i (Tr.setKey k r.1 kvs), .node r.1, [], r.2, none⟩
  | .dict i kvs, .dUpdate other kw =>
    let m := kw.foldl (fun acc kv => Tr.setKey kv.1 kv.2 acc)
              (other.foldl (fun acc kv => Tr.setKey kv.1 kv.2 acc) [])
    let r := updDictLoop fam kvs (overrideOrder kvs m) n
    ⟨.dict i r.val, .unit, r.det, r.next, r.err⟩
  | .dict _ _, .dReset v =>
    let r := updNode fam t v n
    ⟨r.val, .unit, r.det, r.next, r.err⟩
  | .dict i kvs, .dRead rd =>
    match dictRead i kvs rd with
    | .error e => fail e
    | .ok o => ⟨t, o, [], n, none⟩
  | .list i xs, .lSetitem (.i j) v => let r := fromBase v n; lmut i xs (.setitem j r.1) r.2
  | .list i xs, .lSetitem (.sl s) v =>
    -- `self._data[slice] = self._from_base(value)`: the converted value is iterated
    let r := fromBase v n
    match iterate r.1 with
    | .error e => ⟨t, .unit, [], r.2, some e⟩
    | .ok vs => lmut i xs (.setslice s vs) r.2
  | .list i xs, .lDelitem ix => lmut i xs (.delitem ix) n
  | .list i xs, .lInsert j v => let r := fromBase v n; lmut i xs (.insert j r.1) r.2
  | .list i xs, .lAppend v => let r := fromBase v n; lmut i xs (.append r.1) r.2
  | .list i xs, .lExtend v | .list i xs, .lIadd v =>
    match iterate v with
    | .error e => fail e
    | .ok vs => let r := fromBaseL vs n; lmut i xs (.extend r.1) r.2
  | .list i xs, .lRemove v => lmut i xs (.remove v) n
  | .list i xs, .lClear => lmut i xs .clear n
  | .list i xs, .lPop j => lmut i xs (.pop j) n
  | .list i xs, .lReverse => lmut i xs .reverse n
  | .list _ _, .lReset v =>
    let r := updNode fam t v n
    ⟨r.val, .unit, r.det, r.next, r.err⟩
  | .list i xs, .lRead rd =>
    match listRead i xs rd with
    | .error e => fail e
    | .ok o => ⟨t, o, [], n, none⟩
  | _, _ => fail (.other "WrongKind")

/-- result of one call as the caller sees it -/
abbrev CallOut := Except Err (Out Nat)

/-- object that performs load/save for a handle, and whether the handle is a root -/
def handleOwner (s : State) : Handle → Option (Nat × Bool)
  | .root o => if o < s.objs.length then some (o, true) else none
  | .node id => (s.ownerOf id).map (fun o => (o, false))

def handleNode (s : State) : Handle → Option T
  | .root o => (s.objs[o]?).map (·.root)
  | .node id => findNode s id

def putNode (s : State) (h : Handle) (new : T) : State :=
  match h with
  | .root o => match s.objs[o]? with
    | some ob => s.setObj o { ob with root := new }
    | none => s
  | .node id => replaceNode s id new

/-- the load that precedes the body: skipped by root-level overwrites (clear / reset
on the root) and by the one read that never touches the collection -/
def loadFor (s : State) (oi : Nat) (isRoot : Bool) (op : Op) : State × Option Err :=
  if (op.isOverwrite && isRoot) || op.skipsLoad then (s, none) else loadRoot s oi

/-- install the result of the body -/
def applyBody (s1 : State) (h : Handle) (oi : Nat) (r : NodeRes) : State :=
  ((putNode s1 h r.node).own oi s1.next r.next).addDetached oi r.det

/-- save (mutators only; also when the body raised), then return or raise -/
def finishCall (s2 : State) (oi : Nat) (op : Op) (r : NodeRes) : State × CallOut :=
  let s3 := if op.isRead then s2 else saveRoot s2 oi
  match r.err with
  | some e => (s3, .error e)
  | none => (s3, .ok r.out)

/-- the call once handle, owner object and target node are known -/
def callOn (s : State) (h : Handle) (op : Op) (oi : Nat) (isRoot : Bool) (o : Obj) (t0 : T) :
    State × CallOut :=
  -- 1. validation before anything is touched
  match preValidate (s.fam o) t0.isDict op with
  | some e => (s, .error e)
  | none =>
    -- 2. load
    let ls := loadFor s oi isRoot op
    match ls.2 with
    | some e => (ls.1, .error e)
    | none =>
      match handleNode ls.1 h with
      | none => (ls.1, .error (.other "LostNode"))
      | some t =>
        -- 3. body, 4. save
        let r := runBody (s.fam o) t op ls.1.next
        finishCall (applyBody ls.1 h oi r) oi op r

/-- One public call `h.op(...)`. -/
def call (s : State) (h : Handle) (op : Op) : State × CallOut :=
  match handleOwner s h, handleNode s h with
  | some (oi, isRoot), some t0 =>
    match s.objs[oi]? with
    | none => (s, .error (.other "NoSuchObject"))
    | some o => callOn s h op oi isRoot o t0
  | _, _ => (s, .error (.other "NoSuchHandle"))

/-! ### other steps of a history -/

/-- construct a new root object of family `fam` on resource `res`, optionally with
constructor data (validated, not saved, not checked against the resource). -/
def openObj (s : State) (fam : Nat) (isDict : Bool) (res : Nat) (data : Option J) :
    State × Option Err :=
  let f := s.fams.getD fam default
  let oi := s.objs.length
  match data with
  | none =>
    let root : T := if isDict then .dict s.next [] else .list s.next []
    (({ s with objs := s.objs ++ [(⟨fam, isDict, res, root⟩ : Obj)] }).own oi s.next (s.next + 1), none)
  | some d =>
    if d.isDict ≠ isDict || d.isLeaf then (s, some (.other "BadCtorData")) else
    match validate (if isDict then f.dictV else f.listV) d with
    | some e => (s, some e)
    | none =>
      let r := fromBase d s.next
      (({ s with objs := s.objs ++ [(⟨fam, isDict, res, r.1⟩ : Obj)] }).own oi s.next r.2, none)

/-- an outside writer replaces the resource's content -/
def extWrite (s : State) (res : Nat) (d : J) : State := s.setStore res d

/-! ### histories -/

/-- a step of a sequential history on one family: a public call through any handle, a constructor
call (with or without data), an outside writer replacing a resource's content -/
inductive SStep where
  | call (h : Handle) (op : Op)
  | openObj (isDict : Bool) (res : Nat) (data : Option J)
  | ext (res : Nat) (d : J)

def sstep (s : State) : SStep → State
  | .call h op => (call s h op).1
  | .openObj d r data => (openObj s 0 d r data).1
  | .ext r d => extWrite s r d

def srun (s : State) (history : List SStep) : State := history.foldl sstep s

end SC
