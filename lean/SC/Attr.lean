/-
Attribute routing of `AttrDict` (`data_types/attr_dict.py`) on top of Python's normal
attribute lookup: which of `obj.k`, `obj.k = v`, `del obj.k` address the object itself and
which are forwarded to item access.
-/
import SC.Builtin
import SC.Table
namespace SC.Attr
open SC

/-- what decides the routing for one class: its `_PROTECTED_KEYS`, `dir(cls)`, and the
attributes a constructed instance has in its `__dict__` -/
structure Cls where
  protectedKeys : List String
  classAttrs : List String
  instAttrs : List String
deriving Repr

def Cls.ofInfo (c : ClassInfo) : Cls := ⟨c.protectedKeys, c.classAttrs, c.instAttrs⟩

inductive Route where
  | item            -- forwarded to `__getitem__` / `__setitem__` / `__delitem__`
  | object          -- addresses an attribute of the object itself
  | attributeError  -- raises AttributeError without touching anything
deriving DecidableEq, Repr

/-- `obj.k`: normal lookup (`__getattribute__`) finds instance and class attributes;
`__getattr__` is only called when that fails: dunder names raise, everything else is an item
lookup (KeyError becomes AttributeError). -/
def getRoute (c : Cls) (dunder : Bool) (k : String) : Route :=
  if c.instAttrs.contains k || c.classAttrs.contains k then .object
  else if dunder then .attributeError
  else .item

/-- `obj.k = v` and `del obj.k`: protected names and dunders address the object, everything
else is forwarded to item access -/
def setRoute (c : Cls) (dunder : Bool) (k : String) : Route :=
  if c.protectedKeys.contains k || dunder then .object else .item

def delRoute (c : Cls) (dunder : Bool) (k : String) : Route := setRoute c dunder k

variable {ι : Type}

def keyErrToAttrErr {α : Type} : Except Err α → Except Err α
  | .error .keyError => .error .attributeError
  | r => r

/-- result of an attribute-syntax operation on the dict node `kvs` -/
inductive Res (α : Type) where
  | object                          -- the object's own attribute was read / written / deleted; the data is untouched
  | data (r : Except Err α)
deriving Repr

def attrGet (c : Cls) (dunder : Bool) (i : ι) (kvs : List (Key × Tr ι)) (k : String) : Res (Out ι) :=
  match getRoute c dunder k with
  | .object => .object
  | .attributeError => .data (.error .attributeError)
  | .item => .data (keyErrToAttrErr (dictRead i kvs (.getitem (.s k))))

def attrSet (c : Cls) (dunder : Bool) (kvs : List (Key × Tr ι)) (k : String) (v : Tr ι) :
    Res (BodyRes (List (Key × Tr ι)) ι) :=
  match setRoute c dunder k with
  | .item => .data (dictMut kvs (.setitem (.s k) v))
  | _ => .object

def attrDel (c : Cls) (dunder : Bool) (kvs : List (Key × Tr ι)) (k : String) :
    Res (BodyRes (List (Key × Tr ι)) ι) :=
  match delRoute c dunder k with
  | .item => .data (keyErrToAttrErr (dictMut kvs (.delitem (.s k))))
  | _ => .object

/-! ### side conditions on the generated class table -/

/-- every attribute a constructed instance carries is a protected name (otherwise constructing
the object would store that attribute as a data item) — and so is every name that ANY method of
the class or its bases assigns on `self` (a setter, a context manager, a lazily created cache: an
internal assignment to an unprotected name is routed into the data the first time that method
runs, long after construction) -/
def ctorAttrsProtected (c : ClassInfo) : Bool :=
  !c.attrAccess || (c.instAttrs.all (fun a => c.protectedKeys.contains a) &&
                    c.assignedAttrs.all (fun a => c.protectedKeys.contains a))

/-- the classes `_from_base` picks for nested mappings / sequences are the family's own dict and
list class — for plain data and for synced collections of another family alike -/
def familyClosed (f : FamInfo) : Bool :=
  match f.dictClass, f.listClass with
  | some d, some l =>
    f.classes.length == 2 &&
    f.classes.all (fun c => c.childDict == d.name && c.childList == l.name &&
                            c.childDictForeign == d.name && c.childListForeign == l.name) &&
    !l.attrAccess
  | _, _ => false

end SC.Attr
