/-
L2 — buffered collections: the per-class buffer state machine of
`buffers/file_buffered_collection.py`, both strategies
(`serialized_file_buffered_collection.py`, `memory_buffered_collection.py`),
per-object (`obj.buffered`) and class-wide (`Class.buffer_backend(cap)`) contexts,
forced flushes, metadata conflict detection.  One buffered class per state
(a class has its own `_buffer`, `_CURRENT_BUFFER_SIZE`, `_buffer_context`).

Memory of root objects lives in *cells* so that the shared-memory strategy's
aliasing (`self._data = buffer[filename]["contents"]`) is expressible: objects
with the same cell see the same container.
-/
import SC.Seq
import SC.Table
namespace SC.B
open SC

/-- `(st_size, st_mtime_ns)`; every write draws a fresh stamp -/
structure Meta where
  size : Nat
  stamp : Nat
deriving DecidableEq, Repr, Inhabited

structure Entry where
  /-- serialized: the encoded blob (as the ordered data it encodes) -/
  contents : J
  /-- serialized: what the stored hash was computed from -/
  hash : J
  fmeta : Option Meta
  /-- shared memory: the cell whose container *is* the buffered data -/
  cell : Nat
  /-- shared memory: modified relative to the file -/
  modified : Bool
deriving Repr, Inhabited

structure Obj where
  isDict : Bool
  res : Nat
  cell : Nat
  buffered : Nat        -- `obj.buffered` entry count
deriving Repr, Inhabited

structure State where
  fam : Fam
  strategy : Buffering
  stores : List (Nat × J)
  metas : List (Nat × Meta)
  stamp : Nat
  objs : List Obj
  cells : List (Nat × T)
  nextCell : Nat
  detached : List (Nat × T)
  owners : List (Nat × Nat × Nat)
  next : Nat
  entries : List (Nat × Entry)
  size : Nat
  capacity : Nat
  capStack : List (Option Nat)
  ctx : Nat
  /-- `_buffered_collections`: object indices in insertion order -/
  registry : List Nat
  /-- `len(repr(x))` for the floats that occur (supplied by the harness) -/
  flen : List ((Int × Nat) × Nat)
  /-- files whose next writes fail with `OSError` (disk full, directory gone): an environment
  condition, switched by the history -/
  failing : List Nat := []
deriving Repr, Inhabited

def defaultCapacity : Buffering → Nat
  | .serialized => 32 * 2 ^ 20
  | _ => 1000

def State.init (fam : Fam) (strategy : Buffering) (flen : List ((Int × Nat) × Nat)) : State :=
  { fam, strategy, stores := [], metas := [], stamp := 1, objs := [], cells := [], nextCell := 0,
    detached := [], owners := [], next := 0, entries := [], size := 0,
    capacity := defaultCapacity strategy, capStack := [], ctx := 0, registry := [], flen }

/-! ### `len(json.dumps(data).encode())` -/

def charLen (c : Char) : Nat :=
  if c = '"' ∨ c = '\\' then 2
  else if c = '\n' ∨ c = '\r' ∨ c = '\t' ∨ c.toNat = 8 ∨ c.toNat = 12 then 2
  else if c.toNat < 32 then 6
  else if c.toNat < 127 then 1
  else if c.toNat < 65536 then 6
  else 12

def natDigits (n : Nat) : Nat := (toString n).length

def scalarLen (flen : List ((Int × Nat) × Nat)) : Scalar → Nat
  | .null => 4
  | .bool true => 4
  | .bool false => 5
  | .int i => if i < 0 then 1 + natDigits i.natAbs else natDigits i.natAbs
  | .flt n d => ((flen.find? (fun p => p.1 = (n, d))).map (·.2)).getD 3
  | .str s => 2 + (s.toList.map charLen).sum
  | .other _ => 0

def keyLen : Key → Nat
  | .s s => 2 + (s.toList.map charLen).sum
  | .n i => if i < 0 then 3 + natDigits i.natAbs else 2 + natDigits i.natAbs

mutual
def encLen (fl : List ((Int × Nat) × Nat)) : J → Nat
  | .leaf s => scalarLen fl s
  | .list _ xs => 2 + encLenL fl xs
  | .dict _ kvs => 2 + encLenKV fl kvs
def encLenL (fl : List ((Int × Nat) × Nat)) : List J → Nat
  | [] => 0
  | [x] => encLen fl x
  | x :: y :: xs => encLen fl x + 2 + encLenL fl (y :: xs)
def encLenKV (fl : List ((Int × Nat) × Nat)) : List (Key × J) → Nat
  | [] => 0
  | [(k, v)] => keyLen k + 2 + encLen fl v
  | (k, v) :: kv :: kvs => keyLen k + 2 + encLen fl v + 2 + encLenKV fl (kv :: kvs)
end

namespace State

def store (s : State) (r : Nat) : Option J := (s.stores.find? (·.1 = r)).map (·.2)
def stat (s : State) (r : Nat) : Option Meta := (s.metas.find? (·.1 = r)).map (·.2)
def entry (s : State) (r : Nat) : Option Entry := (s.entries.find? (·.1 = r)).map (·.2)

/-- write a file: content, new size, fresh stamp -/
def writeFile (s : State) (r : Nat) (d : J) : State :=
  { s with stores := (r, d) :: s.stores.filter (·.1 ≠ r),
           metas := (r, ⟨encLen s.flen d, s.stamp⟩) :: s.metas.filter (·.1 ≠ r),
           stamp := s.stamp + 1 }

def deleteFile (s : State) (r : Nat) : State :=
  { s with stores := s.stores.filter (·.1 ≠ r), metas := s.metas.filter (·.1 ≠ r) }

def setEntry (s : State) (r : Nat) (e : Entry) : State :=
  { s with entries := if s.entries.any (·.1 = r)
      then s.entries.map (fun p => if p.1 = r then (r, e) else p)
      else s.entries ++ [(r, e)] }

def delEntry (s : State) (r : Nat) : State := { s with entries := s.entries.filter (·.1 ≠ r) }

def cellData (s : State) (c : Nat) : T :=
  ((s.cells.find? (·.1 = c)).map (·.2)).getD (.leaf .null)

def setCell (s : State) (c : Nat) (t : T) : State :=
  { s with cells := if s.cells.any (·.1 = c)
      then s.cells.map (fun p => if p.1 = c then (c, t) else p)
      else s.cells ++ [(c, t)] }

def root (s : State) (o : Obj) : T := s.cellData o.cell

/-- the nested collections directly below a root container -/
def kidsOf : T → List T
  | .leaf _ => []
  | .list _ xs => containers xs
  | .dict _ kvs => containers (kvs.map (·.2))

/-- Nested collections are objects: when a root container is rebuilt around the same children
(`self._data = type(self._data)(self._data)`), the children are shared between the old and the new
container.  Trees cannot share, so after an in-place change of cell `c` the copies of its
children (same identity) in every other cell are brought up to date. -/
def syncFrom (s : State) (c : Nat) : State :=
  let kids := kidsOf (s.cellData c)
  { s with cells := s.cells.map (fun p =>
      if p.1 = c then p
      else (p.1, kids.foldl (fun t k => match Tr.id? k with | some i => Tr.replace i k t | none => t) p.2)) }

def setObj (s : State) (oi : Nat) (o : Obj) : State := { s with objs := s.objs.set oi o }

def isBuffered (s : State) (o : Obj) : Bool := o.buffered > 0 || s.ctx > 0

def ownerOf (s : State) (id : Nat) : Option Nat :=
  (s.owners.find? (fun r => r.2.1 ≤ id ∧ id < r.2.2)).map (·.1)

def own (s : State) (oi lo hi : Nat) : State :=
  if lo < hi then { s with owners := s.owners ++ [(oi, lo, hi)], next := hi } else { s with next := hi }

def addDetached (s : State) (oi : Nat) (ts : List T) : State :=
  { s with detached := s.detached ++ (containers ts).map (fun t => (oi, t)) }

/-- `_buffered_collections[id(self)] = self` -/
def register (s : State) (oi : Nat) : State :=
  if s.registry.contains oi then s else { s with registry := s.registry ++ [oi] }

end State

/-- `self._update(data)` on root object `oi` (in place, on its current cell) -/
def mergeInto (s : State) (oi : Nat) (o : Obj) (d : J) : State × Option Err :=
  let r := updNode s.fam (s.root o) d s.next
  (((((s.setCell o.cell r.val).syncFrom o.cell).own oi s.next r.next)).addDetached oi r.det, r.err)

def loadFromResource (s : State) (o : Obj) : Option J := s.store o.res

def saveToResource (s : State) (o : Obj) : State := s.writeFile o.res (s.root o).toBase

/-- `_save_to_resource()` in an environment where writing some files fails -/
def trySave (s : State) (o : Obj) : State × Option Err :=
  if s.failing.contains o.res then (s, some (.other "OSError")) else (saveToResource s o, none)

/-! ### single-collection flush, both strategies -/

/-- `SerializedFileBufferedCollection._flush(force)`; `some .metadataError` when the file
changed on disk under a modified entry -/
def flushSer (s : State) (oi : Nat) (o : Obj) (force : Bool) : State × Option Err :=
  if !(s.isBuffered o) || force then
    match s.entry o.res with
    | none => (s, none)
    | some e =>
      let fin (s' : State) : State :=
        { (s'.delEntry o.res) with size := s'.size - encLen s.flen e.contents }
      if !(Tr.same e.contents e.hash) then
        if e.fmeta ≠ s.stat o.res then (fin s, some (.other "MetadataError"))
        else
          let (s1, err) := mergeInto s oi o e.contents
          match err with
          | some er => (fin s1, some er)
          | none =>
            -- the write may fail: the `finally` clause still drops the entry
            let (s2, werr) := trySave s1 o
            (fin s2, werr)
      else (fin s, none)
  else (s, none)

/-- `SharedMemoryFileBufferedCollection._flush(force)` -/
def flushMem (s : State) (oi : Nat) (o : Obj) (force : Bool) : State × Option Err :=
  if !(s.isBuffered o) || force then
    match s.entry o.res with
    | none =>
      if !force then
        -- self._update(self._load_from_resource()): merged in place, children stay
        match loadFromResource s o with
        | none => (s, none)
        | some d => mergeInto s oi o d
      else (s, none)
    | some e =>
      -- `finally`: the size no longer counts the entry; a forced flush keeps the entry
      -- (unmodified from now on), any other flush drops it
      let fin (s' : State) (e' : Entry) : State :=
        let s2 := if e.modified then { s' with size := s'.size - 1 } else s'
        if !force then s2.delEntry o.res
        else s2.setEntry o.res { e' with modified := false }
      if e.modified then
        if e.fmeta ≠ s.stat o.res then (fin s e, some (.other "MetadataError"))
        else
          -- self._data = cached_data["contents"]; self._save_to_resource();
          -- if force: metadata := metadata of the file just written
          let o' := { o with cell := e.cell }
          let (s1, werr) := trySave (s.setObj oi o') o'
          match werr with
          | some er => (fin s1 e, some er)
          | none => (fin s1 (if force then { e with fmeta := s1.stat o.res } else e), none)
      else (fin s e, none)
  else
    -- still buffered and not forced: stop sharing the top-level container; the nested
    -- collections are kept: self._data = type(self._data)(self._data)
    let c := s.nextCell
    let o' := { o with cell := c }
    ({ (s.setCell c (s.root o)) with nextCell := c + 1 }.setObj oi o', none)

def flushOne (s : State) (oi : Nat) (force : Bool) : State × Option Err :=
  match s.objs[oi]? with
  | none => (s, none)
  | some o =>
    match s.strategy with
    | .serialized => flushSer s oi o force
    | .sharedMemory => flushMem s oi o force
    | .none => (s, none)

/-- `_flush_buffer(force)`: pops `_buffered_collections` LIFO; returns the files that could
not be flushed (`BufferedError.files`) -/
def flushBufferLoop (force : Bool) (retain : Bool) :
    List Nat → State → List Nat → List Nat → State × List Nat × List Nat
  | [], s, remaining, issues => (s, remaining, issues)
  | oi :: rest, s, remaining, issues =>
    match s.objs[oi]? with
    | none => flushBufferLoop force retain rest s remaining issues
    | some o =>
      if s.isBuffered o && !force then
        flushBufferLoop force retain rest s (remaining ++ [oi]) issues
      else
        let remaining' := if force && retain then remaining ++ [oi] else remaining
        let (s1, err) := flushOne s oi force
        match err with
        | some (.other "MetadataError") =>
          flushBufferLoop force retain rest s1 remaining' (issues ++ [o.res])
        | some (.other "OSError") =>
          flushBufferLoop force retain rest s1 remaining' (issues ++ [o.res])
        | _ => flushBufferLoop force retain rest s1 remaining' issues

def bufferedError (files : List Nat) : Err :=
  .other ("BufferedError:" ++ ",".intercalate ((files.eraseDups.toArray.qsort (· < ·)).toList.map toString))

def flushBuffer (s : State) (force : Bool) : State × Option Err :=
  let retain := s.strategy == .sharedMemory
  -- popitem() takes the most recently inserted first; flushes may not re-register
  let order := s.registry.reverse
  let (s1, remaining, issues) := flushBufferLoop force retain order { s with registry := [] } [] []
  let s2 := { s1 with registry := remaining ++ s1.registry.filter (fun x => !remaining.contains x) }
  if issues.isEmpty then (s2, none) else (s2, some (bufferedError issues))

def setCapacity (s : State) (n : Nat) : State × Option Err :=
  let s1 := { s with capacity := n }
  if n < s1.size then flushBuffer s1 true else (s1, none)

/-! ### buffer access for load / save -/

def initEntrySer (s : State) (o : Obj) : State :=
  let blob := (s.root o).toBase
  let s1 := s.setEntry o.res ⟨blob, blob, s.stat o.res, o.cell, false⟩
  { s1 with size := s1.size + encLen s.flen blob }

def initEntryMem (s : State) (o : Obj) (modified : Bool) : State :=
  s.setEntry o.res ⟨.leaf .null, .leaf .null, s.stat o.res, o.cell, modified⟩

/-- `FileBufferedCollection._load_from_buffer` (the common part) -/
def ensureEntry (s : State) (oi : Nat) (o : Obj) : State × Option Err :=
  let (s1, err) :=
    if (s.entry o.res).isSome then (s, none) else
    let (s1, err) := match loadFromResource s o with
      | none => (s, none)
      | some d => mergeInto s oi o d
    match err with
    | some e => (s1, some e)
    | none =>
      match s.strategy with
      | .serialized => (initEntrySer s1 o, none)
      | _ => (initEntryMem s1 o false, none)
  match err with
  | some e => (s1, some e)
  | none => (s1.register oi, none)

/-- `_load()` on root object `oi` -/
def load (s : State) (oi : Nat) : State × Option Err :=
  match s.objs[oi]? with
  | none => (s, some (.other "NoSuchObject"))
  | some o =>
    if s.isBuffered o then
      match s.strategy with
      | .serialized =>
        let (s1, err) := ensureEntry s oi o
        match err with
        | some e => (s1, some e)
        | none =>
          match s1.entry o.res with
          | none => (s1, some (.other "KeyError"))
          | some e =>
            let (s2, ferr) := if s1.size > s1.capacity then flushBuffer s1 true else (s1, none)
            match ferr with
            | some fe => (s2, some fe)
            | none => mergeInto s2 oi o e.contents
      | .sharedMemory =>
        let (s1, err) := ensureEntry s oi o
        match err with
        | some e => (s1, some e)
        | none =>
          match s1.entry o.res with
          | none => (s1, some (.other "KeyError"))
          | some e => (s1.setObj oi { o with cell := e.cell }, none)
      | .none => (s, some (.other "NoStrategy"))
    else
      match loadFromResource s o with
      | none => (s, none)
      | some d => mergeInto s oi o d

/-- `_save()` on root object `oi` -/
def save (s : State) (oi : Nat) : State × Option Err :=
  match s.objs[oi]? with
  | none => (s, none)
  | some o =>
    if s.isBuffered o then
      let s0 := s.register oi
      match s0.strategy with
      | .serialized =>
        let s1 := match s0.entry o.res with
          | some e =>
            let blob := (s0.root o).toBase
            -- a file that did not exist when it entered the buffer must be created by the flush:
            -- the stored hash becomes the one of "no data"
            let s' := s0.setEntry o.res { e with contents := blob, hash := if e.fmeta.isNone then .leaf .null else e.hash }
            { s' with size := s'.size + encLen s0.flen blob - encLen s0.flen e.contents }
          | none =>
            let s' := initEntrySer s0 o
            match s'.entry o.res with
            | some e => s'.setEntry o.res { e with hash := (loadFromResource s' o).getD (.leaf .null) }
            | none => s'
        if s1.size > s1.capacity then flushBuffer s1 true else (s1, none)
      | .sharedMemory =>
        let s1 := match s0.entry o.res with
          | some e =>
            let s' := if e.modified then s0 else { s0 with size := s0.size + 1 }
            s'.setEntry o.res { e with modified := true, cell := o.cell }
          | none => { (initEntryMem s0 o true) with size := s0.size + 1 }
        if s1.size > s1.capacity then flushBuffer s1 true else (s1, none)
      | .none => (s0, none)
    else trySave s o

/-! ### contexts -/

def enterObj (s : State) (oi : Nat) : State :=
  match s.objs[oi]? with
  | none => s
  | some o => s.setObj oi { o with buffered := o.buffered + 1 }

def exitObj (s : State) (oi : Nat) : State × Option Err :=
  match s.objs[oi]? with
  | none => (s, none)
  | some o =>
    let s1 := s.setObj oi { o with buffered := o.buffered - 1 }
    if o.buffered - 1 = 0 then flushOne s1 oi false else (s1, none)

def enterCls (s : State) (cap : Option Nat) : State × Option Err :=
  let s1 := { s with ctx := s.ctx + 1 }
  match cap with
  | none => ({ s1 with capStack := none :: s1.capStack }, none)
  | some c => setCapacity { s1 with capStack := some s1.capacity :: s1.capStack } c

def exitCls (s : State) : State × Option Err :=
  let s1 := { s with ctx := s.ctx - 1 }
  let (s2, ferr) := if s1.ctx = 0 then flushBuffer s1 false else (s1, none)
  match s2.capStack with
  | [] => (s2, ferr)
  | top :: rest =>
    let s3 := { s2 with capStack := rest }
    match top with
    | none => (s3, ferr)
    | some c =>
      let (s4, cerr) := setCapacity s3 c
      (s4, match cerr with | some e => some e | none => ferr)

/-! ### calls -/

def findNode (s : State) (id : Nat) : Option T :=
  match s.cells.findSome? (fun c => Tr.find id c.2) with
  | some t => some t
  | none => s.detached.findSome? (fun p => Tr.find id p.2)

def replaceNode (s : State) (id : Nat) (new : T) : State :=
  { s with cells := s.cells.map (fun c => (c.1, Tr.replace id new c.2)),
           detached := s.detached.map (fun p => (p.1, Tr.replace id new p.2)) }

def handleOwner (s : State) : Handle → Option (Nat × Bool)
  | .root o => if o < s.objs.length then some (o, true) else none
  | .node id => (s.ownerOf id).map (fun o => (o, false))

def handleNode (s : State) : Handle → Option T
  | .root o => (s.objs[o]?).map s.root
  | .node id => findNode s id

def putNode (s : State) (h : Handle) (new : T) : State :=
  match h with
  | .root o => match s.objs[o]? with
    | some ob => (s.setCell ob.cell new).syncFrom ob.cell
    | none => s
  | .node id => replaceNode s id new

def call (s : State) (h : Handle) (op : Op) : State × CallOut :=
  match handleOwner s h, handleNode s h with
  | some (oi, isRoot), some t0 =>
    match preValidate s.fam t0.isDict op with
    | some e => (s, .error e)
    | none =>
      let (s1, lerr) :=
        if (op.isOverwrite && isRoot) || op.skipsLoad then (s, none)
        else
          let (s1, e1) := load s oi
          match e1 with
          | some e => (s1, some e)
          | none =>
            -- reads that load the root more than once (see `Op.loadsTwice`)
            match handleNode s1 h with
            | some t => if op.loadsTwice t then load s1 oi else (s1, none)
            | none => (s1, none)
      match lerr with
      | some e => (s1, .error e)
      | none =>
        match handleNode s1 h with
        | none => (s1, .error (.other "LostNode"))
        | some t =>
          let r := runBody s.fam t op s1.next
          let s2 := ((putNode s1 h r.node).own oi s1.next r.next).addDetached oi r.det
          let (s3, serr) := if op.isRead then (s2, none) else save s2 oi
          match serr with
          | some e => (s3, .error e)
          | none =>
            match r.err with
            | some e => (s3, .error e)
            | none => (s3, .ok r.out)
  | _, _ => (s, .error (.other "NoSuchHandle"))

def openObj (s : State) (isDict : Bool) (res : Nat) (data : Option J) : State × Option Err :=
  let oi := s.objs.length
  let c := s.nextCell
  match data with
  | none =>
    let root : T := if isDict then .dict s.next [] else .list s.next []
    ((({ s with objs := s.objs ++ [(⟨isDict, res, c, 0⟩ : Obj)], nextCell := c + 1 }).setCell c root).own oi
        s.next (s.next + 1), none)
  | some d =>
    if d.isDict ≠ isDict || d.isLeaf then (s, some (.other "BadCtorData")) else
    match validate (if isDict then s.fam.dictV else s.fam.listV) d with
    | some e => (s, some e)
    | none =>
      let r := fromBase d s.next
      ((({ s with objs := s.objs ++ [(⟨isDict, res, c, 0⟩ : Obj)], nextCell := c + 1 }).setCell c r.1).own oi
          s.next r.2, none)

def extWrite (s : State) (res : Nat) (d : J) : State := s.writeFile res d


/-! ### histories -/

/-- one step of a history on a buffered class -/
inductive Step where
  | call (h : Handle) (op : Op)
  | enterObj (oi : Nat)
  | exitObj (oi : Nat)
  | enterCls (cap : Option Nat)
  | exitCls
  | setCap (n : Nat)
  | openObj (isDict : Bool) (res : Nat) (data : Option J)
  | ext (res : Nat) (d : J)
  | extDel (res : Nat)
  /-- from now on, writing these files fails with `OSError` (`[]`: the disk works again) -/
  | setFailing (rs : List Nat)

def step (s : State) : Step → State
  | .call h op => (call s h op).1
  | .enterObj oi => enterObj s oi
  | .exitObj oi => (exitObj s oi).1
  | .enterCls cap => (enterCls s cap).1
  | .exitCls => (exitCls s).1
  | .setCap n => (setCapacity s n).1
  | .openObj d r data => (openObj s d r data).1
  | .ext r d => extWrite s r d
  | .extDel r => s.deleteFile r
  | .setFailing rs => { s with failing := rs }

def run (s : State) (steps : List Step) : State := steps.foldl step s

end SC.B
