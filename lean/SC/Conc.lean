/-
L3 — interleavings.

`Machine`: threads executing operations whose whole body runs inside one lock (what the
library's load-and-save bracket, resp. the class-wide buffer lock, provides): an idle thread
may start its next operation only when the lock is free; it then performs the operation's
actions one at a time (any other thread may be scheduled in between, but cannot enter); then
it releases.  Re-entrant inner acquisitions by the owner are no-ops and are omitted.
The commit log is ghost state (the order in which operations entered the lock).

`RW`: a fine-grained machine with a lock-free reader next to a bracketed writer, with the
suspend counter and the shared in-memory copy, used to exhibit the C14 schedule.

`Locks`: lock bookkeeping for the deadlock-freedom argument (C10).
-/
namespace SC.Conc

variable {Sh : Type}

/-- an operation: the actions it performs on the shared state, in order
(load-merge, body, save are three of them for a library mutator) -/
abbrev Op (Sh : Type) := List (Sh → Sh)

def Op.apply (op : Op Sh) (s : Sh) : Sh := op.foldl (fun s f => f s) s

structure Th (Sh : Type) where
  /-- inside the critical section: remaining actions -/
  cur : Option (Op Sh)
  /-- operations still to be issued, in program order -/
  todo : List (Op Sh)

structure Cfg (Sh : Type) where
  σ : Sh
  owner : Option Nat
  ths : List (Th Sh)
  /-- ghost: operations in the order they entered the lock -/
  log : List (Nat × Op Sh)

def init (σ0 : Sh) (progs : List (List (Op Sh))) : Cfg Sh :=
  ⟨σ0, none, progs.map (fun p => ⟨none, p⟩), []⟩

/-- thread `t` takes one step; a blocked or finished thread does not move -/
def step (c : Cfg Sh) (t : Nat) : Cfg Sh :=
  match c.ths[t]? with
  | none => c
  | some th =>
    match th.cur with
    | none =>
      match th.todo with
      | [] => c
      | op :: rest =>
        if c.owner = none then
          { c with owner := some t, ths := c.ths.set t ⟨some op, rest⟩, log := c.log ++ [(t, op)] }
        else c                                            -- blocked on the lock
    | some [] => { c with owner := none, ths := c.ths.set t ⟨none, th.todo⟩ }      -- release
    | some (f :: fs) => { c with σ := f c.σ, ths := c.ths.set t ⟨some fs, th.todo⟩ }

def run (c : Cfg Sh) (sched : List Nat) : Cfg Sh := sched.foldl step c

def Done (c : Cfg Sh) : Prop := ∀ th ∈ c.ths, th.cur = none ∧ th.todo = []

/-- serial execution of a log -/
def serial (σ0 : Sh) (log : List (Nat × Op Sh)) : Sh := log.foldl (fun s e => e.2.apply s) σ0

/-! ### the reader/writer machine of C14 -/
namespace RW

structure St where
  file : Nat          -- content of the file (a version counter is enough)
  mem : Nat           -- the object's in-memory copy (shared by both threads)
  sus : Nat           -- `_suspend_sync` counter of the object (shared)
  tmp : Nat           -- the reader's local: what it read from the file
  lock : Bool         -- the file lock (only the writer takes it)
deriving DecidableEq, Repr

inductive Instr where
  | acq | rel
  | wLoad       -- writer: `_load`: if not suspended: mem := file
  | wBody       -- writer: the mutation: mem := mem + 1
  | wSave       -- writer: `_save`: if not suspended: file := mem
  | rRead       -- reader: `_load_from_resource`: tmp := file   (only if not suspended)
  | rSusUp      -- reader: enter `with self._suspend_sync`
  | rMerge      -- reader: `_update(tmp)`: mem := tmp
  | rSusDown
deriving DecidableEq, Repr

def exec (s : St) : Instr → Option St
  | .acq => if s.lock then none else some { s with lock := true }
  | .rel => some { s with lock := false }
  | .wLoad => some (if s.sus = 0 then { s with mem := s.file } else s)
  | .wBody => some { s with mem := s.mem + 1 }
  | .wSave => some (if s.sus = 0 then { s with file := s.mem } else s)
  | .rRead => some { s with tmp := s.file }
  | .rSusUp => some { s with sus := s.sus + 1 }
  | .rMerge => some { s with mem := s.tmp }
  | .rSusDown => some { s with sus := s.sus - 1 }

def writer : List Instr := [.acq, .wLoad, .wBody, .wSave, .rel]
def reader : List Instr := [.rRead, .rSusUp, .rMerge, .rSusDown]

/-- run two threads under a schedule (true = writer's turn); a blocked step is skipped -/
def runRW : St → List Instr → List Instr → List Bool → St
  | s, _, _, [] => s
  | s, w, r, true :: sch =>
    match w with
    | [] => runRW s w r sch
    | i :: w' => match exec s i with
      | some s' => runRW s' w' r sch
      | none => runRW s w r sch
  | s, w, r, false :: sch =>
    match r with
    | [] => runRW s w r sch
    | i :: r' => match exec s i with
      | some s' => runRW s' w r' sch
      | none => runRW s w r sch

end RW

/-! ### lock bookkeeping for deadlock freedom -/
namespace Locks

/-- per thread: the locks it holds and the lock it is waiting for (if blocked) -/
structure ThL where
  holds : List Nat
  waits : Option Nat

/-- every blocked thread waits for a lock ranked above everything it holds -/
def Ordered (rank : Nat → Nat) (ths : List ThL) : Prop :=
  ∀ th ∈ ths, ∀ w, th.waits = some w → ∀ l ∈ th.holds, rank l < rank w

/-- a deadlock: some thread is blocked, and every blocked thread waits for a lock held by a
blocked thread -/
def Deadlocked (ths : List ThL) : Prop :=
  (∃ th ∈ ths, th.waits.isSome) ∧
  ∀ th ∈ ths, ∀ w, th.waits = some w → ∃ u ∈ ths, w ∈ u.holds ∧ u.waits.isSome

/-- the three kinds of locks of the library -/
inductive Role | buffer | file | cls
deriving DecidableEq, Repr

/-- the hierarchy: class-wide buffer lock, then a file's lock, then the class registry lock -/
def Role.rank : Role → Nat
  | .buffer => 0
  | .file => 1
  | .cls => 2

/-- audit of one (non-reentrant) acquisition: the lock being acquired is ranked strictly above
every lock the thread already holds.  The harness evaluates this on every acquisition it observes
on the real code. -/
def acquireOk (held : List Role) (l : Role) : Bool := held.all (fun h => h.rank < l.rank)

end Locks

/-! ### the lock bracket of one operation, with exception edges (C10) -/
namespace Bracket

inductive Lock | buffer | file
deriving DecidableEq, Repr

inductive Ev | acq (l : Lock) | rel (l : Lock) | load | body | save
deriving DecidableEq, Repr

/-- where an operation can raise -/
inductive Fail | none | load | body | save
deriving DecidableEq, Repr

/-- `_LoadAndSave.__enter__ / __exit__` (and `_BufferedLoadAndSave` around it), as written:
`__enter__`: acquire; try load; on error release and re-raise.
`__exit__` (only runs when `__enter__` returned): try save finally release. -/
def trace (buffered : Bool) (noLoad : Bool) (f : Fail) : List Ev :=
  let enterInner : List Ev × Bool :=      -- events, entered?
    if noLoad then ([.acq .file], true)
    else if f = .load then ([.acq .file, .load, .rel .file], false)
    else ([.acq .file, .load], true)
  let enter : List Ev × Bool :=
    if buffered then
      if enterInner.2 then (.acq .buffer :: enterInner.1, true)
      else (.acq .buffer :: enterInner.1 ++ [.rel .buffer], false)
    else enterInner
  if !enter.2 then enter.1
  else
    let bodyEv : List Ev := [.body]
    let exitInner : List Ev := [.save, .rel .file]       -- save runs also when the body raised
    let exit : List Ev := if buffered then exitInner ++ [.rel .buffer] else exitInner
    enter.1 ++ bodyEv ++ exit

/-- locks held after the events -/
def held : List Ev → List Lock → List Lock
  | [], h => h
  | .acq l :: es, h => held es (l :: h)
  | .rel l :: es, h => held es (h.erase l)
  | _ :: es, h => held es h

/-- locks are acquired in the order buffer before file, never the other way round -/
def ordered : List Ev → List Lock → Bool
  | [], _ => true
  | .acq l :: es, h => (l != .buffer || !h.contains .file) && ordered es (l :: h)
  | .rel l :: es, h => ordered es (h.erase l)
  | _ :: es, h => ordered es h

end Bracket

end SC.Conc
