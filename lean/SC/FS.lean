/-
L4 — file-system micro-model for crash atomicity (C08).

A file has a committed content and, while it is open for writing, *pending* bytes: bytes
handed to `write()` that the runtime / OS may or may not have put into the file yet.  At a
process crash any prefix of the pending bytes may be in the file; `close` commits them all.
The code's save path is a list of primitive operations; a crash can happen between any two
of them.  `os.replace` is atomic (POSIX rename) and moves the file together with whatever
is still pending on it: this is the assumption the property rests on, stated here as the
semantics of `replace`.
-/
namespace SC.FS

abbrev Path := Nat
abbrev Bytes := List Nat

def lookup (p : Path) (m : List (Path × Bytes)) : Option Bytes := (m.find? (·.1 = p)).map (·.2)
def put (p : Path) (b : Bytes) (m : List (Path × Bytes)) : List (Path × Bytes) :=
  (p, b) :: m.filter (·.1 ≠ p)
def drop (p : Path) (m : List (Path × Bytes)) : List (Path × Bytes) := m.filter (·.1 ≠ p)

structure Disk where
  files : List (Path × Bytes)
  pending : List (Path × Bytes) := []
deriving Repr, DecidableEq, Inhabited

namespace Disk
def get (d : Disk) (p : Path) : Option Bytes := lookup p d.files
def pend (d : Disk) (p : Path) : Bytes := (lookup p d.pending).getD []
end Disk

/-- primitive file operations issued by `_save_to_resource` and the flush paths -/
inductive FsOp where
  | openTrunc (p : Path)              -- open(p, "wb"): create or truncate
  | write (p : Path) (bs : Bytes)     -- file.write(bs): the bytes become pending
  | close (p : Path)                  -- all pending bytes are in the file
  | replace (src dst : Path)          -- os.replace(src, dst): atomic
  | stat (p : Path)                   -- os.stat / reading: no effect on the disk
deriving Repr, DecidableEq

/-- effect of an operation -/
def exec (d : Disk) : FsOp → Disk
  | .openTrunc p => ⟨put p [] d.files, drop p d.pending⟩
  | .write p bs => ⟨d.files, put p (d.pend p ++ bs) d.pending⟩
  | .close p =>
    match d.get p with
    | some b => ⟨put p (b ++ d.pend p) d.files, drop p d.pending⟩
    | none => ⟨d.files, drop p d.pending⟩
  | .replace src dst =>
    match d.get src with
    | some b => ⟨drop src (put dst b d.files), drop src (put dst (d.pend src) d.pending)⟩
    | none => d
  | .stat _ => d

/-- what a crash *now* can leave in file `p`: the committed content plus any prefix of the
pending bytes -/
def observe (d : Disk) (p : Path) : List (Option Bytes) :=
  match d.get p with
  | none => [none]
  | some b => (List.range ((d.pend p).length + 1)).map (fun k => some (b ++ (d.pend p).take k))

/-- every content file `p` can have after a crash at any instant of executing `ops` -/
def crashContents (d : Disk) : List FsOp → Path → List (Option Bytes)
  | [], p => observe d p
  | op :: rest, p => observe d p ++ crashContents (exec d op) rest p

def run (d : Disk) (ops : List FsOp) : Disk := ops.foldl exec d

/-- `JSONCollection._save_to_resource` after serialisation succeeded.
`atomic` = `write_concern or threading support active`. -/
def saveSteps (atomic : Bool) (target tmp : Path) (blob : Bytes) : List FsOp :=
  if atomic then [.openTrunc tmp, .write tmp blob, .close tmp, .replace tmp target]
  else [.openTrunc target, .write target blob, .close target]

/-- the whole save: serialisation comes first and may raise (`none`), in which case no file
operation is issued at all -/
def saveProgram (atomic : Bool) (target tmp : Path) (encoded : Option Bytes) : List FsOp :=
  match encoded with
  | none => []
  | some blob => saveSteps atomic target tmp blob

/-- `JSONCollection._load_from_resource`: open for reading, read, close.  No operation that can
change any file is issued — a missing file is reported as "no data"; nothing is created, moved or
removed, whatever else lies in the directory.  (Tied to the code by the directory audit of C17: the
process-wide tracer must see exactly these operations — none — during every kind of read.) -/
def loadProgram (_target : Path) : List FsOp := []

/-- one file of a buffer flush: metadata check (`os.stat`), then the save -/
structure FlushItem where
  target : Path
  tmp : Path
  blob : Bytes
deriving Repr

def flushSteps (atomic : Bool) : List FlushItem → List FsOp
  | [] => []
  | it :: rest => .stat it.target :: (saveSteps atomic it.target it.tmp it.blob ++ flushSteps atomic rest)

end SC.FS
