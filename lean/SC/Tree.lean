/-
L0 — synced trees: `_from_base`, `_update` (the in-place merge that keeps child
objects alive), node lookup / replacement by identity.
-/
import SC.Validators
namespace SC

/-- The two classes of a backend family (one registry entry), as far as the merge
needs them: which validators the dict class and the list class run. -/
structure Fam where
  dictV : List Validator
  listV : List Validator
deriving Repr, Inhabited

variable {ι : Type}

/-! `_from_base`: build a fresh synced tree from data (copying, also when the
data itself contains synced nodes).  Fresh identities are drawn from a counter. -/
mutual
def fromBase : Tr ι → Nat → T × Nat
  | .leaf s, n => (.leaf s, n)
  | .list _ xs, n =>
    let r := fromBaseL xs (n + 1)
    (.list n r.1, r.2)
  | .dict _ kvs, n =>
    let r := fromBaseKV kvs (n + 1)
    (.dict n r.1, r.2)
def fromBaseL : List (Tr ι) → Nat → List T × Nat
  | [], n => ([], n)
  | x :: xs, n =>
    let r := fromBase x n
    let rs := fromBaseL xs r.2
    (r.1 :: rs.1, rs.2)
def fromBaseKV : List (Key × Tr ι) → Nat → List (Key × T) × Nat
  | [], n => ([], n)
  | (k, v) :: kvs, n =>
    let r := fromBase v n
    let rs := fromBaseKV kvs r.2
    ((k, r.1) :: rs.1, rs.2)
end

/-- Result of a merge: the (possibly partially) updated value, the identity
counter, the container nodes that fell out of the tree (they stay addressable
through handles obtained earlier), and the exception if one was raised. -/
structure UpdRes (α : Type) where
  val : α
  next : Nat
  det : List T
  err : Option Err

/-- container nodes among `ts` (leaves have no identity, so they are not tracked) -/
def containers (ts : List T) : List T := ts.filter (fun t => !t.isLeaf)

def Err.isValueError : Err → Bool
  | .valueError | .invalidKeyError => true
  | _ => false

/-- One position of the merge loop (`SyncedDict._update` / `SyncedList._update`,
body of the `for`): `existing` is what is in memory, `new` what the data has,
`nested` is the result of `existing._update(new)` (only used when `existing` is a
synced container), `verr` the result of validating `new` for this position. -/
def elemStep (existing : T) (new : Tr ι) (nested : UpdRes T) (verr : Option Err) (n : Nat) :
    UpdRes T :=
  let replace (cur : T) (n : Nat) (det : List T) : UpdRes T :=
    match verr with
    | some e => ⟨cur, n, det, some e⟩
    | none =>
      let r := fromBase new n
      ⟨r.1, r.2, det ++ containers [cur], none⟩
  match existing with
  | .leaf s =>
    match new with
    | .leaf s' => if s = s' then ⟨existing, n, [], none⟩ else replace existing n []
    | _ => replace existing n []
  | _ =>
    match new with
    | .leaf .null => replace existing n []
    | _ =>
      match nested.err with
      | none => nested
      | some e =>
        if e.isValueError then replace nested.val nested.next nested.det
        else nested

mutual
/-- `existing._update(new)` for a synced container `existing`. -/
def updNode (fam : Fam) : T → Tr ι → Nat → UpdRes T
  | t, .leaf .null, n => ⟨t, n, [], none⟩            -- `data is None`: no action
  | .dict i kvs, .dict _ dkvs, n =>
    let r := updDictLoop fam kvs dkvs n
    match r.err with
    | some e => ⟨.dict i r.val, r.next, r.det, some e⟩
    | none =>
      -- to_remove = [key for key in self._data if key not in data]
      let keep := r.val.filter (fun kv => Tr.hasKey kv.1 dkvs)
      let gone := r.val.filter (fun kv => !Tr.hasKey kv.1 dkvs)
      ⟨.dict i keep, r.next, r.det ++ containers (gone.map (·.2)), none⟩
  | .list i xs, .list _ dxs, n =>
    let r := updListLoop fam xs dxs n
    ⟨.list i r.val, r.next, r.det, r.err⟩
  | t, _, n => ⟨t, n, [], some .valueError⟩          -- "Unsupported type"
/-- the `for key, new_value in data.items()` loop; `cur` is `self._data` -/
def updDictLoop (fam : Fam) (cur : List (Key × T)) : List (Key × Tr ι) → Nat →
    UpdRes (List (Key × T))
  | [], n => ⟨cur, n, [], none⟩
  | (k, v) :: rest, n =>
    match Tr.lookup k cur with
    | none =>
      match validateKV fam.dictV [(k, v)] with
      | some e => ⟨cur, n, [], some e⟩
      | none =>
        let r := fromBase v n
        let rr := updDictLoop fam (cur ++ [(k, r.1)]) rest r.2
        ⟨rr.val, rr.next, rr.det, rr.err⟩
    | some existing =>
      let s := elemStep existing v (updNode fam existing v n) (validateKV fam.dictV [(k, v)]) n
      let cur' := Tr.setKey k s.val cur
      match s.err with
      | some e => ⟨cur', s.next, s.det, some e⟩
      | none =>
        let rr := updDictLoop fam cur' rest s.next
        ⟨rr.val, rr.next, s.det ++ rr.det, rr.err⟩
/-- the positional loop of `SyncedList._update`, then truncation or extension -/
def updListLoop (fam : Fam) : List T → List (Tr ι) → Nat → UpdRes (List T)
  | [], [], n => ⟨[], n, [], none⟩
  | cs, [], n => ⟨[], n, containers cs, none⟩                 -- del self._data[len(data):]
  | [], ds, n =>                                               -- validate(new_data); extend
    match validateL fam.listV ds with
    | some e => ⟨[], n, [], some e⟩
    | none =>
      let r := fromBaseL ds n
      ⟨r.1, r.2, [], none⟩
  | c :: cs, d :: ds, n =>
    let s := elemStep c d (updNode fam c d n) (validate fam.listV d) n
    match s.err with
    | some e => ⟨s.val :: cs, s.next, s.det, some e⟩
    | none =>
      let rr := updListLoop fam cs ds s.next
      ⟨s.val :: rr.val, rr.next, s.det ++ rr.det, rr.err⟩
end

/-! ### Addressing nodes by identity -/

namespace Tr

def id? : T → Option Nat
  | .leaf _ => none
  | .list i _ => some i
  | .dict i _ => some i

mutual
/-- the subtree rooted at the container with identity `h` -/
def find (h : Nat) : T → Option T
  | .leaf _ => none
  | .list i xs => if i = h then some (.list i xs) else findL h xs
  | .dict i kvs => if i = h then some (.dict i kvs) else findKV h kvs
def findL (h : Nat) : List T → Option T
  | [] => none
  | x :: xs => match find h x with
    | some t => some t
    | none => findL h xs
def findKV (h : Nat) : List (Key × T) → Option T
  | [] => none
  | (_, v) :: kvs => match find h v with
    | some t => some t
    | none => findKV h kvs
end

mutual
/-- replace the subtree rooted at identity `h` by `new` -/
def replace (h : Nat) (new : T) : T → T
  | .leaf s => .leaf s
  | .list i xs => if i = h then new else .list i (replaceL h new xs)
  | .dict i kvs => if i = h then new else .dict i (replaceKV h new kvs)
def replaceL (h : Nat) (new : T) : List T → List T
  | [] => []
  | x :: xs => replace h new x :: replaceL h new xs
def replaceKV (h : Nat) (new : T) : List (Key × T) → List (Key × T)
  | [] => []
  | (k, v) :: kvs => (k, replace h new v) :: replaceKV h new kvs
end

mutual
/-- all container identities in a tree -/
def ids : T → List Nat
  | .leaf _ => []
  | .list i xs => i :: idsL xs
  | .dict i kvs => i :: idsKV kvs
def idsL : List T → List Nat
  | [] => []
  | x :: xs => ids x ++ idsL xs
def idsKV : List (Key × T) → List Nat
  | [] => []
  | (_, v) :: kvs => ids v ++ idsKV kvs
end

end Tr
end SC
