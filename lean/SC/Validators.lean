/-
L0 — the validators of `synced_collections/validators.py` and
`backends/collection_json.py::json_attr_dict_validator`, transcribed branch by
branch (order of checks included: it decides which error class is raised first).
A validator returns `none` (accepted) or `some e` (the exception raised).
-/
import SC.Json
namespace SC

/-- first error wins -/
@[inline] def orErr (a b : Option Err) : Option Err :=
  match a with
  | some e => some e
  | none => b

@[simp] theorem orErr_none_left (b : Option Err) : orErr none b = b := rfl
@[simp] theorem orErr_some_left (e : Err) (b : Option Err) : orErr (some e) b = some e := rfl
@[simp] theorem orErr_none_right (a : Option Err) : orErr a none = a := by cases a <;> rfl

theorem orErr_eq_none {a b : Option Err} : orErr a b = none ↔ a = none ∧ b = none := by
  cases a <;> simp [orErr]

def hasDot (s : String) : Bool := s.contains '.'

variable {ι : Type}

/-! `require_string_key`: raises KeyTypeError on a non-string key, descends into
mappings and (non-string) sequences. -/
mutual
def reqStr : Tr ι → Option Err
  | .leaf _ => none
  | .list _ xs => reqStrL xs
  | .dict _ kvs => reqStrKV kvs
def reqStrL : List (Tr ι) → Option Err
  | [] => none
  | x :: xs => orErr (reqStr x) (reqStrL xs)
def reqStrKV : List (Key × Tr ι) → Option Err
  | [] => none
  | (k, v) :: kvs =>
    orErr (if k.isStr then none else some .keyTypeError) (orErr (reqStr v) (reqStrKV kvs))
end

/-! `json_format_validator`: BASE leaves pass, mapping keys must be `str`
(checked before the value), sequences are descended, anything else → TypeError. -/
mutual
def jsonFmt : Tr ι → Option Err
  | .leaf s => if s.isClean then none else some .typeError
  | .list _ xs => jsonFmtL xs
  | .dict _ kvs => jsonFmtKV kvs
def jsonFmtL : List (Tr ι) → Option Err
  | [] => none
  | x :: xs => orErr (jsonFmt x) (jsonFmtL xs)
def jsonFmtKV : List (Key × Tr ι) → Option Err
  | [] => none
  | (k, v) :: kvs =>
    orErr (if k.isStr then none else some .keyTypeError) (orErr (jsonFmt v) (jsonFmtKV kvs))
end

/-- the key test of `no_dot_in_key` / `json_attr_dict_validator` -/
def dotKeyCheck : Key → Option Err
  | .s s => if hasDot s then some .invalidKeyError else none
  | .n _ => some .keyTypeError

/-! `no_dot_in_key`: string key with a dot → InvalidKeyError, non-string key →
KeyTypeError, then the value; descends into sequences; leaves are not inspected. -/
mutual
def noDot : Tr ι → Option Err
  | .leaf _ => none
  | .list _ xs => noDotL xs
  | .dict _ kvs => noDotKV kvs
def noDotL : List (Tr ι) → Option Err
  | [] => none
  | x :: xs => orErr (noDot x) (noDotL xs)
def noDotKV : List (Key × Tr ι) → Option Err
  | [] => none
  | (k, v) :: kvs =>
    orErr (dotKeyCheck k) (orErr (noDot v) (noDotKV kvs))
end

/-! `json_attr_dict_validator`: like `json_format_validator` plus the dot rule,
but the *value* is validated before its key is checked. -/
mutual
def jsonAttr : Tr ι → Option Err
  | .leaf s => if s.isClean then none else some .typeError
  | .list _ xs => jsonAttrL xs
  | .dict _ kvs => jsonAttrKV kvs
def jsonAttrL : List (Tr ι) → Option Err
  | [] => none
  | x :: xs => orErr (jsonAttr x) (jsonAttrL xs)
def jsonAttrKV : List (Key × Tr ι) → Option Err
  | [] => none
  | (k, v) :: kvs =>
    orErr (jsonAttr v) (orErr (dotKeyCheck k) (jsonAttrKV kvs))
end

/-- The validators a class may carry.  `unknown` is what the translator emits for a
callable it does not recognise; it accepts everything, so every capability
obligation that needs a rejecting validator fails for it. -/
inductive Validator where
  | requireStringKey | jsonFormat | noDotInKey | jsonAttrDict
  | unknown (n : Nat)
deriving DecidableEq, Repr, Inhabited

namespace Validator
def run : Validator → Tr ι → Option Err
  | .requireStringKey, t => reqStr t
  | .jsonFormat, t => jsonFmt t
  | .noDotInKey, t => noDot t
  | .jsonAttrDict, t => jsonAttr t
  | .unknown _, _ => none
/-- the validator applied to the list value `xs` -/
def runL : Validator → List (Tr ι) → Option Err
  | .requireStringKey, t => reqStrL t
  | .jsonFormat, t => jsonFmtL t
  | .noDotInKey, t => noDotL t
  | .jsonAttrDict, t => jsonAttrL t
  | .unknown _, _ => none
/-- the validator applied to the mapping `{k: v, ...}` -/
def runKV : Validator → List (Key × Tr ι) → Option Err
  | .requireStringKey, t => reqStrKV t
  | .jsonFormat, t => jsonFmtKV t
  | .noDotInKey, t => noDotKV t
  | .jsonAttrDict, t => jsonAttrKV t
  | .unknown _, _ => none
end Validator

/-- `SyncedCollection._validate(data)`: all validators of the class, in order. -/
def validate : List Validator → Tr ι → Option Err
  | [], _ => none
  | v :: vs, t => orErr (v.run t) (validate vs t)
def validateL : List Validator → List (Tr ι) → Option Err
  | [], _ => none
  | v :: vs, t => orErr (v.runL t) (validateL vs t)
def validateKV : List Validator → List (Key × Tr ι) → Option Err
  | [], _ => none
  | v :: vs, t => orErr (v.runKV t) (validateKV vs t)

end SC
