/-
L0 — data.  Scalars, keys, trees (`Tr ι`), Python equality / ordering on plain data.

`Tr ι` is one type for both plain JSON-like data (`J = Tr Unit`) and synced
trees whose container nodes carry an identity (`T = Tr Nat`).  Leaves may be
"dirty" (`Scalar.other`, a value no JSON validator accepts) and keys may be
non-strings (`Key.n`); `Tr.clean` is the specification predicate of C11/C12.
No Mathlib here: this file is linked into the `driver` executable.
-/
namespace SC

/-- Python scalars as they can be passed to a collection.  `flt num den` is the
finite float `num/den` in lowest terms (`float.as_integer_ratio`), `den > 0`.
`other tag` is any object that is neither a JSON scalar nor a collection. -/
inductive Scalar where
  | null
  | bool (b : Bool)
  | int (i : Int)
  | flt (num : Int) (den : Nat)
  | str (s : String)
  | other (tag : Nat)
deriving DecidableEq, Repr, Inhabited

/-- Mapping keys: strings, or a non-string hashable (modelled as an int). -/
inductive Key where
  | s (k : String)
  | n (i : Int)
deriving DecidableEq, Repr, Inhabited

inductive Tr (ι : Type) where
  | leaf (s : Scalar)
  | list (i : ι) (xs : List (Tr ι))
  | dict (i : ι) (kvs : List (Key × Tr ι))
deriving Repr, Inhabited

abbrev J := Tr Unit
abbrev T := Tr Nat

namespace Scalar

/-- numeric value as a fraction, if numeric (Python's numeric tower: bool ⊂ int ⊂ float) -/
def num? : Scalar → Option (Int × Nat)
  | .bool b => some (if b then 1 else 0, 1)
  | .int i => some (i, 1)
  | .flt n d => some (n, d)
  | _ => none

/-- Python `==` on scalars. -/
def pyEq (a b : Scalar) : Bool :=
  match a.num?, b.num? with
  | some (n1, d1), some (n2, d2) => n1 * d2 == n2 * d1
  | _, _ =>
    match a, b with
    | .null, .null => true
    | .str s, .str t => s == t
    | .other x, .other y => x == y
    | _, _ => false

def isClean : Scalar → Bool
  | .other _ => false
  | _ => true

end Scalar

def Key.isStr : Key → Bool
  | .s _ => true
  | .n _ => false

namespace Tr
variable {ι κ : Type}

mutual
def map (f : ι → κ) : Tr ι → Tr κ
  | .leaf s => .leaf s
  | .list i xs => .list (f i) (mapL f xs)
  | .dict i kvs => .dict (f i) (mapKV f kvs)
def mapL (f : ι → κ) : List (Tr ι) → List (Tr κ)
  | [] => []
  | x :: xs => map f x :: mapL f xs
def mapKV (f : ι → κ) : List (Key × Tr ι) → List (Key × Tr κ)
  | [] => []
  | (k, v) :: kvs => (k, map f v) :: mapKV f kvs
end

/-- `_to_base`: forget identities. -/
def toBase (t : Tr ι) : J := t.map (fun _ => ())

/-- association-list lookup (Python dict lookup; keys are unique in well-formed data) -/
def lookup {α : Type} (k : Key) : List (Key × α) → Option α
  | [] => none
  | (k', v) :: kvs => if k' = k then some v else lookup k kvs

def hasKey {α : Type} (k : Key) (kvs : List (Key × α)) : Bool := (lookup k kvs).isSome

def keys {α : Type} (kvs : List (Key × α)) : List Key := kvs.map (·.1)

/-- `d[k] = v`: keep position if present, else append. -/
def setKey {α : Type} (k : Key) (v : α) : List (Key × α) → List (Key × α)
  | [] => [(k, v)]
  | (k', v') :: kvs => if k' = k then (k, v) :: kvs else (k', v') :: setKey k v kvs

def delKey {α : Type} (k : Key) : List (Key × α) → List (Key × α)
  | [] => []
  | (k', v') :: kvs => if k' = k then kvs else (k', v') :: delKey k kvs

mutual
/-- Python `==` between two pieces of data, ignoring identities
(a synced child compares through its plain content). -/
def pyEq : Tr ι → Tr κ → Bool
  | .leaf a, .leaf b => a.pyEq b
  | .list _ xs, .list _ ys => pyEqL xs ys
  | .dict _ kvs, .dict _ kws => kvs.length == kws.length && pyEqKV kvs kws
  | _, _ => false
def pyEqL : List (Tr ι) → List (Tr κ) → Bool
  | [], [] => true
  | x :: xs, y :: ys => pyEq x y && pyEqL xs ys
  | _, _ => false
/-- every binding of the left dict is matched by an equal binding on the right -/
def pyEqKV : List (Key × Tr ι) → List (Key × Tr κ) → Bool
  | [], _ => true
  | (k, v) :: kvs, kws => pyEqIn k v kws && pyEqKV kvs kws
def pyEqIn (k : Key) (v : Tr ι) : List (Key × Tr κ) → Bool
  | [] => false
  | (k', w) :: kws => if k' = k then pyEq v w else pyEqIn k v kws
end

mutual
/-- same content: same structure, same key order, identical scalars (identities ignored) -/
def same : Tr ι → Tr κ → Bool
  | .leaf a, .leaf b => a == b
  | .list _ xs, .list _ ys => sameL xs ys
  | .dict _ kvs, .dict _ kws => sameKV kvs kws
  | _, _ => false
def sameL : List (Tr ι) → List (Tr κ) → Bool
  | [], [] => true
  | x :: xs, y :: ys => same x y && sameL xs ys
  | _, _ => false
def sameKV : List (Key × Tr ι) → List (Key × Tr κ) → Bool
  | [], [] => true
  | (k, v) :: kvs, (k', w) :: kws => k == k' && same v w && sameKV kvs kws
  | _, _ => false
end

mutual
/-- C11/C12 specification predicate: string keys everywhere, JSON leaves only,
and (when `nodot`) no key containing a dot. -/
def clean (nodot : Bool) : Tr ι → Bool
  | .leaf s => s.isClean
  | .list _ xs => cleanL nodot xs
  | .dict _ kvs => cleanKV nodot kvs
def cleanL (nodot : Bool) : List (Tr ι) → Bool
  | [] => true
  | x :: xs => clean nodot x && cleanL nodot xs
def cleanKV (nodot : Bool) : List (Key × Tr ι) → Bool
  | [] => true
  | (k, v) :: kvs =>
    (match k with
     | .s s => !(nodot && s.contains '.')
     | .n _ => false) && clean nodot v && cleanKV nodot kvs
end

mutual
/-- keys are unique in every dict node -/
def wf : Tr ι → Bool
  | .leaf _ => true
  | .list _ xs => wfL xs
  | .dict _ kvs => wfKV kvs
def wfL : List (Tr ι) → Bool
  | [] => true
  | x :: xs => wf x && wfL xs
def wfKV : List (Key × Tr ι) → Bool
  | [] => true
  | (k, v) :: kvs => !(hasKey k kvs) && wf v && wfKV kvs
end

def isLeaf : Tr ι → Bool
  | .leaf _ => true
  | _ => false

def isList : Tr ι → Bool
  | .list .. => true
  | _ => false

def isDict : Tr ι → Bool
  | .dict .. => true
  | _ => false

end Tr

/-- Python exception classes the library and the built-ins raise. -/
inductive Err where
  | keyError | indexError | valueError | typeError
  | keyTypeError      -- errors.KeyTypeError (TypeError subclass)
  | invalidKeyError   -- errors.InvalidKeyError (ValueError subclass)
  | attributeError
  | other (name : String)
deriving DecidableEq, Repr, Inhabited

def Err.isTypeOrValueError : Err → Bool
  | .valueError | .typeError | .keyTypeError | .invalidKeyError => true
  | _ => false

def Err.name : Err → String
  | .keyError => "KeyError"
  | .indexError => "IndexError"
  | .valueError => "ValueError"
  | .typeError => "TypeError"
  | .keyTypeError => "KeyTypeError"
  | .invalidKeyError => "InvalidKeyError"
  | .attributeError => "AttributeError"
  | .other n => n

/-! ### Ordering (`<`, `<=`, `>`, `>=`) on plain data, as `list.__lt__` etc. do it -/

inductive Cmp | lt | le | gt | ge
deriving DecidableEq, Repr

namespace Scalar
/-- `a < b` etc. on scalars; `none` = `TypeError` (unorderable types). -/
def cmp (c : Cmp) (a b : Scalar) : Option Bool :=
  match a.num?, b.num? with
  | some (n1, d1), some (n2, d2) =>
    let l := n1 * d2; let r := n2 * d1
    some (match c with | .lt => l < r | .le => l ≤ r | .gt => l > r | .ge => l ≥ r)
  | _, _ =>
    match a, b with
    | .str s, .str t =>
      some (match c with | .lt => s < t | .le => s ≤ t | .gt => s > t | .ge => s ≥ t)
    | _, _ => none
end Scalar

namespace Tr
variable {ι κ : Type}

mutual
/-- rich comparison of two values; `none` = `TypeError`. -/
def cmp (c : Cmp) : Tr ι → Tr κ → Option Bool
  | .leaf a, .leaf b => a.cmp c b
  | .list _ xs, .list _ ys => cmpL c xs ys
  | _, _ => none
/-- list comparison: first position where the elements are not `==` decides. -/
def cmpL (c : Cmp) : List (Tr ι) → List (Tr κ) → Option Bool
  | [], [] => some (match c with | .lt => false | .le => true | .gt => false | .ge => true)
  | [], _ :: _ => some (match c with | .lt => true | .le => true | .gt => false | .ge => false)
  | _ :: _, [] => some (match c with | .lt => false | .le => false | .gt => true | .ge => true)
  | x :: xs, y :: ys => if pyEq x y then cmpL c xs ys else cmp c x y
end

end Tr
end SC
