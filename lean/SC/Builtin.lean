/-
Python's built-in `dict` / `list` operations, generic in the element type so that
the same definitions serve as the *specification* (on plain data, `α = J`) and as
the bodies of the synced operations (on synced children, `α = T`).
Dicts are insertion-ordered association lists with unique keys.
-/
import SC.Json
namespace SC

structure Slice where
  start : Option Int
  stop : Option Int
  step : Option Int
deriving Repr, DecidableEq, Inhabited

inductive Idx where
  | i (i : Int)
  | sl (s : Slice)
deriving Repr, DecidableEq, Inhabited

namespace Py

/-- normalise an index for item access: `IndexError` when out of range -/
def normIdx (len : Nat) (i : Int) : Option Nat :=
  let j := if i < 0 then i + len else i
  if 0 ≤ j ∧ j < len then some j.toNat else none

/-- `slice.indices(len)` → (start, stop, step) with step ≠ 0; `none` = ValueError (step 0) -/
def sliceIndices (s : Slice) (len : Nat) : Option (Int × Int × Int) :=
  let step := s.step.getD 1
  if step = 0 then none else
  let n : Int := len
  let lower : Int := if step < 0 then -1 else 0
  let upper : Int := if step < 0 then n - 1 else n
  let adj (v : Option Int) (dflt : Int) : Int :=
    match v with
    | none => dflt
    | some x =>
      let x := if x < 0 then x + n else x
      if x < lower then lower else if x > upper then upper else x
  let start := adj s.start (if step < 0 then upper else lower)
  let stop := adj s.stop (if step < 0 then lower else upper)
  some (start, stop, step)

/-- `range(start, stop, step)` as natural numbers (all values are valid indices
when they come from `sliceIndices`) -/
def rangeList (start stop step : Int) : List Nat :=
  let count : Nat :=
    if step > 0 then (if start < stop then ((stop - start + step - 1) / step).toNat else 0)
    else (if start > stop then ((start - stop + (-step) - 1) / (-step)).toNat else 0)
  (List.range count).map (fun (k : Nat) => (start + step * (k : Int)).toNat)

variable {α β : Type}

/-- remove the element at position `i` -/
def eraseAt (xs : List α) (i : Nat) : List α := xs.eraseIdx i

/-- remove the elements at the given positions -/
def eraseMany (xs : List α) (is : List Nat) : List α :=
  (xs.zipIdx.filter (fun p => !is.contains p.2)).map (·.1)

/-- `list.insert(i, x)` with Python's clamping -/
def insertAt (xs : List α) (i : Int) (x : α) : List α :=
  let n : Int := xs.length
  let j := if i < 0 then (if i + n < 0 then 0 else i + n) else (if i > n then n else i)
  xs.take j.toNat ++ x :: xs.drop j.toNat

/-- assign `vs` positionally to the positions `is` (same length) -/
def setMany (xs : List α) : List Nat → List α → List α
  | i :: is, v :: vs => setMany (xs.set i v) is vs
  | _, _ => xs

/-- first position whose element satisfies `p`, scanning `[start, stop)` -/
def findFrom (p : α → Bool) (xs : List α) (start : Nat) (stop : Nat) : Option Nat :=
  ((xs.zipIdx.filter (fun q => start ≤ q.2 ∧ q.2 < stop)).find? (fun q => p q.1)).map (·.2)

end Py

/-! ### Operation vocabulary -/

/-- Mutating dict operations whose body is a plain `dict` method applied to
`self._data` (values already converted by `_from_base`). -/
inductive DictMut (α : Type) where
  | setitem (k : Key) (v : α)
  | delitem (k : Key)
  | pop (k : Key) (dflt : J)
  | popitem
  | clear
deriving Repr

/-- Mutating list operations whose body is a plain `list` method on `self._data`. -/
inductive ListMut (α : Type) where
  | setitem (i : Int) (v : α)
  | setslice (s : Slice) (vs : List α)
  | delitem (ix : Idx)
  | insert (i : Int) (v : α)
  | append (v : α)
  | extend (vs : List α)
  | remove (v : J)
  | clear
  | pop (i : Int)
  | reverse
deriving Repr

/-- What an operation returns.  `node`/`nodes`/`pair` carry *elements of the
collection* (for a synced collection these are the child objects themselves);
`plain` is detached built-in data. -/
inductive Out (ι : Type) where
  | unit
  | node (v : Tr ι)
  | nodes (vs : List (Tr ι))
  | pair (k : Key) (v : Tr ι)
  | plain (j : J)
deriving Repr

namespace Out
variable {ι κ : Type}
def map (f : ι → κ) : Out ι → Out κ
  | .unit => .unit
  | .node v => .node (v.map f)
  | .nodes vs => .nodes (Tr.mapL f vs)
  | .pair k v => .pair k (v.map f)
  | .plain j => .plain j
end Out

variable {ι : Type}

/-- result of a body: new content, return value, elements that left the container -/
structure BodyRes (β : Type) (ι : Type) where
  data : β
  out : Out ι
  removed : List (Tr ι)

def dictMut (kvs : List (Key × Tr ι)) : DictMut (Tr ι) → Except Err (BodyRes (List (Key × Tr ι)) ι)
  | .setitem k v =>
    .ok ⟨Tr.setKey k v kvs, .unit, (Tr.lookup k kvs).toList⟩
  | .delitem k =>
    match Tr.lookup k kvs with
    | none => .error .keyError
    | some old => .ok ⟨Tr.delKey k kvs, .unit, [old]⟩
  | .pop k dflt =>
    match Tr.lookup k kvs with
    | none => .ok ⟨kvs, .plain dflt, []⟩
    | some old => .ok ⟨Tr.delKey k kvs, .node old, [old]⟩
  | .popitem =>
    match kvs.getLast? with
    | none => .error .keyError
    | some (k, v) => .ok ⟨kvs.dropLast, .pair k v, [v]⟩
  | .clear => .ok ⟨[], .unit, kvs.map (·.2)⟩

def listMut (xs : List (Tr ι)) : ListMut (Tr ι) → Except Err (BodyRes (List (Tr ι)) ι)
  | .setitem i v =>
    match Py.normIdx xs.length i with
    | none => .error .indexError
    | some j => .ok ⟨xs.set j v, .unit, (xs[j]?).toList⟩
  | .setslice s vs =>
    match Py.sliceIndices s xs.length with
    | none => .error .valueError
    | some (start, stop, step) =>
      if step = 1 then
        let a := start.toNat
        let b := (max start stop).toNat
        .ok ⟨xs.take a ++ vs ++ xs.drop b, .unit, (xs.drop a).take (b - a)⟩
      else
        let is := Py.rangeList start stop step
        if is.length ≠ vs.length then .error .valueError
        else .ok ⟨Py.setMany xs is vs, .unit, is.filterMap (xs[·]?)⟩
  | .delitem (.i i) =>
    match Py.normIdx xs.length i with
    | none => .error .indexError
    | some j => .ok ⟨Py.eraseAt xs j, .unit, (xs[j]?).toList⟩
  | .delitem (.sl s) =>
    match Py.sliceIndices s xs.length with
    | none => .error .valueError
    | some (start, stop, step) =>
      let is := Py.rangeList start stop step
      .ok ⟨Py.eraseMany xs is, .unit, is.filterMap (xs[·]?)⟩
  | .insert i v => .ok ⟨Py.insertAt xs i v, .unit, []⟩
  | .append v => .ok ⟨xs ++ [v], .unit, []⟩
  | .extend vs => .ok ⟨xs ++ vs, .unit, []⟩
  | .remove v =>
    match Py.findFrom (fun x => Tr.pyEq x v) xs 0 xs.length with
    | none => .error .valueError
    | some j => .ok ⟨Py.eraseAt xs j, .unit, (xs[j]?).toList⟩
  | .clear => .ok ⟨[], .unit, xs⟩
  | .pop i =>
    match Py.normIdx xs.length i with
    | none => .error .indexError
    | some j =>
      match xs[j]? with
      | none => .error .indexError
      | some x => .ok ⟨Py.eraseAt xs j, .node x, [x]⟩
  | .reverse => .ok ⟨xs.reverse, .unit, []⟩

/-! ### Read operations -/

inductive DictRead where
  | getitem (k : Key)
  | contains (k : Key)
  | len | iter | call | repr | keys | values | items
  | eq (v : J) | ne (v : J)
  | get (k : Key) (dflt : J)
deriving Repr

inductive ListRead where
  | getitem (ix : Idx)
  | contains (v : J)
  | len | iter | call | repr | reversed
  | index (v : J) (start : Int) (stop : Option Int)
  | count (v : J)
  | eq (v : J) | ne (v : J)
  | cmp (c : Cmp) (v : J)
deriving Repr

def jBool (b : Bool) : J := .leaf (.bool b)
def jInt (i : Int) : J := .leaf (.int i)
def jKey : Key → J
  | .s k => .leaf (.str k)
  | .n i => .leaf (.int i)

def dictRead (i : ι) (kvs : List (Key × Tr ι)) : DictRead → Except Err (Out ι)
  | .getitem k =>
    match Tr.lookup k kvs with
    | none => .error .keyError
    | some v => .ok (.node v)
  | .contains k => .ok (.plain (jBool (Tr.hasKey k kvs)))
  | .len => .ok (.plain (jInt kvs.length))
  | .iter => .ok (.plain (.list () (kvs.map (fun kv => jKey kv.1))))
  | .keys => .ok (.plain (.list () (kvs.map (fun kv => jKey kv.1))))
  | .call => .ok (.plain (Tr.toBase (.dict i kvs)))
  | .repr => .ok (.plain (Tr.toBase (.dict i kvs)))
  | .values => .ok (.plain (.list () (kvs.map (fun kv => kv.2.toBase))))
  | .items => .ok (.plain (.list () (kvs.map (fun kv => .list () [jKey kv.1, kv.2.toBase]))))
  | .eq v => .ok (.plain (jBool (Tr.pyEq (Tr.dict i kvs) v)))
  | .ne v => .ok (.plain (jBool (!Tr.pyEq (Tr.dict i kvs) v)))
  | .get k dflt =>
    match Tr.lookup k kvs with
    | none => .ok (.plain dflt)
    | some v => .ok (.node v)

def listRead (i : ι) (xs : List (Tr ι)) : ListRead → Except Err (Out ι)
  | .getitem (.i j) =>
    match Py.normIdx xs.length j with
    | none => .error .indexError
    | some j => match xs[j]? with
      | none => .error .indexError
      | some x => .ok (.node x)
  | .getitem (.sl s) =>
    match Py.sliceIndices s xs.length with
    | none => .error .valueError
    | some (start, stop, step) => .ok (.nodes ((Py.rangeList start stop step).filterMap (xs[·]?)))
  | .contains v => .ok (.plain (jBool (xs.any (fun x => Tr.pyEq x v))))
  | .len => .ok (.plain (jInt xs.length))
  | .iter => .ok (.nodes xs)
  | .reversed => .ok (.nodes xs.reverse)
  | .call => .ok (.plain (Tr.toBase (.list i xs)))
  | .repr => .ok (.plain (Tr.toBase (.list i xs)))
  | .index v start stop =>
    let n : Int := xs.length
    let a := if start < 0 then max (n + start) 0 else start
    let b : Int := match stop with
      | none => n
      | some b => if b < 0 then b + n else b
    match Py.findFrom (fun x => Tr.pyEq x v) xs a.toNat (if b < 0 then 0 else b.toNat) with
    | none => .error .valueError
    | some j => .ok (.plain (jInt j))
  | .count v => .ok (.plain (jInt (xs.filter (fun x => Tr.pyEq x v)).length))
  | .eq v => .ok (.plain (jBool (Tr.pyEq (Tr.list i xs) v)))
  | .ne v => .ok (.plain (jBool (!Tr.pyEq (Tr.list i xs) v)))
  | .cmp c v =>
    match Tr.cmp c (Tr.list i xs) v with
    | none => .error .typeError
    | some b => .ok (.plain (jBool b))

/-- what iterating a value yields (`list(iterable)`): list → elements, mapping →
keys, string → characters; other scalars are not iterable (`TypeError`). -/
def iterate : Tr ι → Except Err (List (Tr ι))
  | .list _ xs => .ok xs
  | .dict _ kvs => .ok (kvs.map (fun kv => match kv.1 with
      | .s k => .leaf (.str k)
      | .n i => .leaf (.int i)))
  | .leaf (.str s) => .ok (s.toList.map (fun c => .leaf (.str (String.singleton c))))
  | .leaf _ => .error .typeError

end SC
