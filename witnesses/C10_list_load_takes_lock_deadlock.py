"""Witness for a genuine C10 violation in the pinned tree (before the fix): a LOAD of a synced list
whose file has grown takes the list's file lock (SyncedList._update called the public, locking
`extend`).  Reading a synced list operand inside another collection's write context then acquires
a second file lock, and two mirror-image writes deadlock.

Usage: python C10_list_load_takes_lock_deadlock.py [path-to-repo]   (exit 1 = deadlock observed)
Three threads, the schedule is forced with events placed by wrapping methods in this file only."""
import os
import sys
import tempfile
import threading

sys.path.insert(0, sys.argv[1] if len(sys.argv) > 1 else "/repo")
from synced_collections.backends.collection_json import JSONList  # noqa: E402

d = tempfile.mkdtemp(prefix="c10w_")
fa, fb = os.path.join(d, "a.json"), os.path.join(d, "b.json")
JSONList(fa).reset([1])
JSONList(fb).reset([2])
A0, A1, A2 = JSONList(fa), JSONList(fa), JSONList(fa)
B0, B1, B2 = JSONList(fb), JSONList(fb), JSONList(fb)

validated = {"T0": threading.Event(), "T1": threading.Event()}
grown = threading.Event()
inside = threading.Barrier(2, timeout=5)
orig_validate = JSONList._validate
orig_from_base = JSONList._from_base.__func__
seen = set()


def _validate(self, data):
    r = orig_validate(self, data)
    name = threading.current_thread().name
    if name in validated and ("v", name) not in seen and (self is A0 or self is B0):
        # the outermost validation of the operand is done (it loaded the operand): let the growers
        # run, and enter the write context only after both files have grown
        seen.add(("v", name))
        validated[name].set()
        grown.wait(5)
    return r


def _from_base(cls, data, parent=None):
    name = threading.current_thread().name
    if name in validated and ("c", name) not in seen and (data is A1 or data is B1):
        # inside the write context (own file lock held), about to read the operand:
        # wait until the other writer is at the same point
        seen.add(("c", name))
        try:
            inside.wait()
        except threading.BrokenBarrierError:
            pass
    return orig_from_base(cls, data, parent=parent)


JSONList._validate = _validate
JSONList._from_base = classmethod(_from_base)


def grower():
    validated["T0"].wait(5)
    validated["T1"].wait(5)
    B2.append(9)      # B1 (T0's operand) is now shorter than its file
    A2.append(9)      # A1 (T1's operand) too
    grown.set()


ts = [threading.Thread(target=lambda: A0.append(B1), name="T0", daemon=True),
      threading.Thread(target=lambda: B0.append(A1), name="T1", daemon=True),
      threading.Thread(target=grower, name="T2", daemon=True)]
for t in ts:
    t.start()
for t in ts:
    t.join(8)
alive = [t.name for t in ts if t.is_alive()]
if alive:
    print("DEADLOCK: still running after 8 s:", alive,
          "- T0 holds the lock of a.json and waits for b.json's (the load of the operand B1 extends it through the locking "
          "public extend), T1 the other way round")
    os._exit(1)
print("ok: both writes completed; a.json =", JSONList(fa)(), "b.json =", JSONList(fb)())
